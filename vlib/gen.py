"""Unit generator: extracts real items from /repo, applies the closed list of rewrite
rules (DESIGN.md section 3.2), splices contracts / loop invariants / proof hints from the
unit description, and writes one Verus file plus a line map.

No function body is ever typed by hand: bodies come from /repo's working tree on every
run; only the contract text, spec functions, lemmas and the trusted shims are hand-written.
"""
import hashlib
import os
import re

from . import rustlex as rl
from .rustlex import LostAnchor, Unsupported

REPO = os.environ.get("VERIF_REPO", "/repo")

DEFAULT_FEATURES = {"derive", "backend-mysql", "backend-postgres", "backend-sqlite", "sea-query-derive"}


# ----------------------------------------------------------------------------------------
# rewrite rules.  Each rule is a callable (text, ctx) -> text and records what it did in
# ctx.apps (list of dict(rule, before, after)).
# ----------------------------------------------------------------------------------------

class Ctx:
    def __init__(self, unit, key):
        self.unit, self.key, self.apps = unit, key, []

    def app(self, rule, before, after):
        self.apps.append({"rule": rule, "before": before[:200], "after": after[:200]})


def r_attr(text, ctx):
    """R-attr: drop attributes and doc comments (derives are trusted, see DESIGN 3.2)."""
    out, n = [], 0
    toks = rl.lex(text)
    i = 0
    res = []
    k = 0
    while k < len(toks):
        t = toks[k]
        if t.kind == "comment" and (t.text.startswith("///") or t.text.startswith("//!") or t.text.startswith("/**")):
            n += 1
            k += 1
            # swallow following whitespace up to and including one newline
            if k < len(toks) and toks[k].kind == "ws":
                ws = toks[k].text
                nl = ws.find("\n")
                if nl >= 0:
                    toks[k] = rl.Tok("ws", ws[nl + 1:], toks[k].start, toks[k].end)
                    # drop indentation that preceded the comment
                    if res and res[-1].kind == "ws":
                        pw = res[-1].text
                        cut = pw.rfind("\n")
                        res[-1] = rl.Tok("ws", pw[:cut + 1] if cut >= 0 else "", 0, 0)
            continue
        if t.kind == "punct" and t.text == "#" and k + 1 < len(toks) and (toks[k + 1].text == "[" or (toks[k + 1].text == "!" and k + 2 < len(toks) and toks[k + 2].text == "[")):
            # attribute: find matching ]
            j = k + 1
            if toks[j].text == "!":
                j += 1
            depth = 0
            while j < len(toks):
                if toks[j].kind == "punct" and toks[j].text == "[":
                    depth += 1
                elif toks[j].kind == "punct" and toks[j].text == "]":
                    depth -= 1
                    if depth == 0:
                        break
                j += 1
            attr = text[t.start:toks[j].end]
            if re.match(r"#\[\s*cfg\s*\(", attr):
                # cfg attributes are handled by r_cfg; keep
                res.extend(toks[k:j + 1])
                k = j + 1
                continue
            n += 1
            k = j + 1
            if k < len(toks) and toks[k].kind == "ws":
                ws = toks[k].text
                nl = ws.find("\n")
                if nl >= 0:
                    toks[k] = rl.Tok("ws", ws[nl + 1:], toks[k].start, toks[k].end)
                    if res and res[-1].kind == "ws":
                        pw = res[-1].text
                        cut = pw.rfind("\n")
                        res[-1] = rl.Tok("ws", pw[:cut + 1] if cut >= 0 else "", 0, 0)
                else:
                    toks[k] = rl.Tok("ws", "", 0, 0)
            continue
        res.append(t)
        k += 1
    new = "".join(t.text for t in res)
    if n:
        ctx.app("R-attr", "%d attribute(s)/doc comment(s)" % n, "removed")
    return new


def _eval_cfg(expr, features):
    expr = expr.strip()
    m = re.match(r'^feature\s*=\s*"([^"]+)"$', expr)
    if m:
        return m.group(1) in features
    m = re.match(r"^(not|any|all)\s*\((.*)\)$", expr, re.S)
    if m:
        parts, depth, cur = [], 0, ""
        for ch in m.group(2):
            if ch == "(":
                depth += 1
            elif ch == ")":
                depth -= 1
            if ch == "," and depth == 0:
                parts.append(cur)
                cur = ""
            else:
                cur += ch
        if cur.strip():
            parts.append(cur)
        vals = [_eval_cfg(p, features) for p in parts]
        if m.group(1) == "not":
            return not vals[0]
        if m.group(1) == "any":
            return any(vals)
        return all(vals)
    if expr == "test":
        return False
    if expr == "docsrs":
        return False
    raise Unsupported("cfg expression `%s`" % expr)


def r_cfg(text, ctx):
    """R-cfg: resolve #[cfg(...)] attributes against the unit's feature set; the guarded
    element (item, field, match arm, statement) is kept or removed."""
    features = ctx.unit.features
    while True:
        toks = rl.lex(text)
        code = rl.code_toks(toks)
        hit = None
        for k, t in enumerate(code):
            if t.text == "#" and k + 3 < len(code) and code[k + 1].text == "[" and code[k + 2].text == "cfg" and code[k + 3].text == "(":
                hit = k
                break
        if hit is None:
            return text
        k = hit
        close_br = rl.match_close(code, k + 1)
        expr = text[code[k + 3].end:code[close_br - 1].start]
        keep = _eval_cfg(expr, features)
        a_start, a_end = code[k].start, code[close_br].end
        if keep:
            # drop only the attribute (and the whitespace after it)
            m = re.match(r"\s*", text[a_end:])
            new = text[:a_start] + text[a_end + m.end():]
            ctx.app("R-cfg", "#[cfg(%s)]" % rl.norm_ws(expr), "kept element")
            text = new
            continue
        # find extent of the guarded element
        j = close_br + 1
        # skip further attributes
        while j < len(code) and code[j].text == "#" and code[j + 1].text == "[":
            j = rl.match_close(code, j + 1) + 1
        e = j
        end_off = None
        while e < len(code):
            te = code[e]
            if te.kind == "punct" and te.text in "([":
                e = rl.match_close(code, e) + 1
                continue
            if te.kind == "punct" and te.text == "{":
                c = rl.match_close(code, e)
                nxt = code[c + 1] if c + 1 < len(code) else None
                if nxt is not None and nxt.text in (",", ";"):
                    end_off = nxt.end
                    break
                if nxt is not None and (nxt.text in (".", "?") or nxt.text == "else"):
                    e = c + 1
                    continue
                end_off = code[c].end
                break
            if te.kind == "punct" and te.text in ";,":
                end_off = te.end
                break
            if te.kind == "punct" and te.text in ")]}":
                end_off = te.start
                break
            e += 1
        if end_off is None:
            end_off = len(text)
        removed = text[a_start:end_off]
        # also remove the line's leading whitespace and trailing newline
        ls = text.rfind("\n", 0, a_start)
        if text[ls + 1:a_start].strip() == "":
            a_start = ls + 1
        m = re.match(r"[ \t]*\n", text[end_off:])
        if m:
            end_off += m.end()
        ctx.app("R-cfg", "#[cfg(%s)] %s" % (rl.norm_ws(expr), rl.norm_ws(removed)[:80]), "removed (feature off)")
        text = text[:a_start] + text[end_off:]


def split_top(s, sep=","):
    """split s at top-level separators (outside brackets / strings)."""
    toks = rl.lex(s)
    parts, depth, cur_start = [], 0, 0
    for t in toks:
        if t.kind == "punct":
            if t.text in rl.OPEN:
                depth += 1
            elif t.text in rl.CLOSE:
                depth -= 1
            elif t.text == sep and depth == 0:
                parts.append(s[cur_start:t.start])
                cur_start = t.end
    parts.append(s[cur_start:])
    return parts


def parse_fmt(lit):
    """Split a Rust format string literal (with quotes) into segments:
    ('lit', text-as-rust-literal-body) | ('arg', name_or_None, spec)."""
    assert lit.startswith('"') and lit.endswith('"'), lit
    body = lit[1:-1]
    segs, cur, i = [], "", 0
    while i < len(body):
        ch = body[i]
        if ch == "\\":
            cur += body[i:i + 2]
            i += 2
        elif ch == "{":
            if body.startswith("{{", i):
                cur += "{"
                i += 2
                continue
            j = body.index("}", i)
            inner = body[i + 1:j]
            name, _, spec = inner.partition(":")
            if cur:
                segs.append(("lit", cur))
                cur = ""
            segs.append(("arg", name.strip() or None, spec.strip()))
            i = j + 1
        elif ch == "}":
            if body.startswith("}}", i):
                cur += "}"
                i += 2
                continue
            raise Unsupported("format string " + lit)
        else:
            cur += ch
            i += 1
    if cur:
        segs.append(("lit", cur))
    return segs


def lit_tainted_locals(text):
    """names of locals whose value is (or derives from) a STRING LITERAL chosen in an initializer: `let kw = match x { A => "UNION", .. };`,
    `let d = if c { Some("ASC") } else { None };`, `if let Some(dir) = d { .. }` ...  An event-trace writer records literal text as one
    event per written chunk: text that reaches the writer through such a local is split differently from the specification although the
    characters written are the same - the abstraction cannot follow it (unsupported construct, never a violation)."""
    code = rl.code_toks(rl.lex(text))
    binds = []   # (names, init token range)
    k = 0
    while k < len(code):
        t = code[k]
        if t.kind == "ident" and t.text == "let":
            j, depth, pat = k + 1, 0, []
            while j < len(code) and not (code[j].text == "=" and depth == 0 and code[j + 1].text != "=" and code[j - 1].text not in ("=", "!", "<", ">")):
                if code[j].text in rl.OPEN:
                    depth += 1
                elif code[j].text in rl.CLOSE:
                    depth -= 1
                if code[j].text in (";", "{") and depth <= 0 and code[j].text == ";":
                    break
                pat.append(code[j])
                j += 1
            if j < len(code) and code[j].text == "=":
                # pattern variables: lower-case identifiers that are not paths / constructors / type ascriptions
                names, colon = [], False
                for q, pt in enumerate(pat):
                    if pt.text == ":" and not (q + 1 < len(pat) and pat[q + 1].text == ":") and not (q > 0 and pat[q - 1].text == ":"):
                        colon = True
                    if pt.kind == "ident" and not colon and pt.text not in ("mut", "ref") and pt.text[0].islower() and not (q + 1 < len(pat) and pat[q + 1].text in ("(", ":") and pat[q + 1].text == "("):
                        names.append(pt.text)
                e, depth = j + 1, 0
                while e < len(code):
                    if code[e].text in rl.OPEN:
                        if code[e].text == "{" and depth == 0 and k > 0 and code[k - 1].text in ("if", "while"):
                            break
                        depth += 1
                    elif code[e].text in rl.CLOSE:
                        if depth == 0:
                            break
                        depth -= 1
                    elif code[e].text == ";" and depth == 0:
                        break
                    e += 1
                binds.append((names, j + 1, e))
                k = j + 1
                continue
        k += 1
    tainted = set()
    changed = True
    while changed:
        changed = False
        for names, a, b in binds:
            if all(n in tainted for n in names) or not names:
                continue
            init = code[a:b]
            if any(t.kind == "str" for t in init) or any(t.kind == "ident" and t.text in tainted for t in init):
                for n in names:
                    if n not in tainted:
                        tainted.add(n)
                        changed = True
    return tainted


def make_r_fmt(disp="vfmt_disp", lit="vfmt_lit", hex2="vfmt_hex2_upper", wmap=None, merge=False, litvar=None):
    """R-fmt: write!(W, "fmt", args..).unwrap()  ->  { vfmt_lit(W, "..."); vfmt_disp(W, arg); ... }
    Trusted: std::fmt writes the segments in order (DESIGN 3.2).
    merge=True (units whose writer abstraction records literal CHUNKS): directly adjacent literal writes to the same writer are
    merged into one (`w("A"); w("B");` == `w("AB");`), so that re-chunking a keyword in the source is not a proof failure."""

    def merge_lits(text, ctx):
        pat = re.compile(r'%s\((\w+), "((?:[^"\\]|\\.)*)"\);(\s*)%s\(\1, "((?:[^"\\]|\\.)*)"\);' % (re.escape(lit), re.escape(lit)))
        n = 0
        single = re.compile(r'\(\{ (%s\(\w+, "(?:[^"\\]|\\.)*"\)); \}\)' % re.escape(lit))
        while True:
            m = pat.search(text)
            if not m:
                # a block left with ONE literal write is that write (so that it can merge with its neighbours)
                text2 = single.sub(r"\1", text)
                if text2 == text:
                    break
                text = text2
                continue
            text = text[:m.start()] + '%s(%s, "%s%s");' % (lit, m.group(1), m.group(2), m.group(4)) + text[m.end():]
            n += 1
        if n:
            ctx.app("R-fmt-merge", "%d pair(s) of adjacent literal writes" % n, "one literal write each")
        return text

    if litvar is None:
        litvar = merge and lit == "vfmt_lit"     # event-trace writers (render, schema statements, writer): chunk-sensitive

    def r_fmt(text, ctx):
        tainted = lit_tainted_locals(text) if litvar else set()
        if tainted:
            # `w.write_str(local)` / `w.push_str(local)` of such a local
            m = re.search(r"\.(?:write_str|push_str)\(\s*&?\s*(\w+)\s*\)", text)
            if m and m.group(1) in tainted:
                raise Unsupported("literal text reaches the writer through the local `%s` (chosen earlier, written later): outside the event abstraction's reach" % m.group(1))
        # `w.write_str("lit").unwrap()` (fmt::Write): the same literal write as `write!(w, "lit").unwrap()`
        def _ws(m):
            ww = wmap(m.group(1)) if wmap else m.group(1)
            ctx.app("R-fmt", "%s.write_str(%s).unwrap()" % (m.group(1), m.group(2)[:40]), "%s(%s, %s)" % (lit, ww, m.group(2)[:40]))
            return "%s(%s, %s)" % (lit, ww, m.group(2))
        text = re.sub(r'\b(\w+)\.write_str\(\s*("(?:[^"\\]|\\.)*")\s*\)\s*\.unwrap\(\)', _ws, text)
        while True:
            toks = rl.lex(text)
            code = rl.code_toks(toks)
            hit = None
            for k, t in enumerate(code):
                if t.kind == "ident" and t.text == "write" and k + 2 < len(code) and code[k + 1].text == "!" and code[k + 2].text == "(":
                    hit = k
                    break
            if hit is None:
                return merge_lits(text, ctx) if merge else text
            k = hit
            close = rl.match_close(code, k + 2)
            inner = text[code[k + 2].end:code[close].start]
            args = [a.strip() for a in split_top(inner)]
            if args and args[-1] == "":
                args.pop()
            w, fmt, rest = args[0], args[1], args[2:]
            end = code[close].end
            # optional .unwrap()
            tail = ""
            if close + 4 < len(code) + 1 and close + 4 <= len(code) - 0 and code[close + 1].text == "." and code[close + 2].text == "unwrap" and code[close + 3].text == "(" and code[close + 4].text == ")":
                end = code[close + 4].end
                tail = ".unwrap()"
            else:
                nxt = code[close + 1] if close + 1 < len(code) else None
                if nxt is not None and nxt.text == "}":
                    tail = "result"   # tail expression of a fn returning fmt::Result (String's write never fails)
                else:
                    raise Unsupported("write! without .unwrap(): " + rl.norm_ws(text[code[k].start:end])[:80])
            if wmap:
                w = wmap(w)
            segs = parse_fmt(fmt)
            calls, ai = [], 0
            for s in segs:
                if s[0] == "lit":
                    calls.append('%s(%s, "%s");' % (lit, w, s[1]))
                else:
                    if s[1] is not None:
                        e = s[1]
                    else:
                        e = rest[ai]
                        ai += 1
                    if s[2] == "" and re.fullmatch(r'"(?:[^"\\]|\\.)*"', e.strip()):
                        # `{}` of a string LITERAL: Display of a &str is the text itself - a literal segment like any other
                        calls.append('%s(%s, %s);' % (lit, w, e.strip()))
                        continue
                    if litvar and re.fullmatch(r"\*?&?\s*(\w+)", e.strip()) and re.fullmatch(r"\*?&?\s*(\w+)", e.strip()).group(1) in tainted:
                        raise Unsupported("literal text reaches the writer through the local `%s` (chosen earlier, written later): outside the event abstraction's reach" % e.strip())
                    if s[2] == "":
                        calls.append("%s(%s, &(%s));" % (disp, w, e))  # format_args! borrows its arguments
                    elif s[2] == "02X":
                        calls.append("%s(%s, %s);" % (hex2, w, e))
                    elif s[2] in ("X", "x", "02x") and hex2 == "vfmt_hex2_upper":
                        # other hexadecimal forms of a byte (vlib/prelude/vfmt.rs): no padding / lower case
                        calls.append("%s(%s, %s);" % ({"X": "vfmt_hex_upper", "x": "vfmt_hex_lower", "02x": "vfmt_hex2_lower"}[s[2]], w, e))
                    else:
                        raise Unsupported("format spec {:%s}" % s[2])
            if ai != len(rest):
                raise Unsupported("format args mismatch in " + fmt)
            before = text[code[k].start:end]
            # keep it an expression of type (): a block
            after = calls[0].rstrip(";") if len(calls) == 1 else "({ " + " ".join(calls) + " })"
            if tail == "result":
                after = "{ " + " ".join(calls) + " Ok(()) }"
            ctx.app("R-fmt", rl.norm_ws(before), after)
            text = text[:code[k].start] + after + text[end:]

    return r_fmt


def make_r_sub(rule_id, pattern, repl, min_count=1, flags=0, note=""):
    """A declared textual substitution (regex).  Must fire at least min_count times."""

    def r_sub(text, ctx):
        new, n = re.subn(pattern, repl, text, flags=flags)
        if n < min_count:
            raise LostAnchor("%s: rule %s pattern /%s/ matched %d < %d times" % (ctx.key, rule_id, pattern, n, min_count))
        if n:
            ctx.app(rule_id, "/%s/ x%d" % (pattern, n), repl if isinstance(repl, str) else "<fn>")
        return new

    return r_sub


def r_mutself(text, ctx):
    """R-mutself: fn f(mut self, ..) { B }  ->  fn f(self, ..) { let mut self_ = self; B[self:=self_] }"""
    m = re.search(r"\(\s*mut\s+self\b", text)
    if not m:
        raise LostAnchor(ctx.key + ": R-mutself: no `mut self`")
    head_end = text.index("{", m.end())
    header = text[:head_end].replace("mut self", "self", 1)
    body = text[head_end + 1:]
    toks = rl.lex(body)
    out = []
    for t in toks:
        if t.kind == "ident" and t.text == "self":
            out.append("self_")
        else:
            out.append(t.text)
    new = header + "{\n        let mut self_ = self;" + "".join(out)
    ctx.app("R-mutself", "mut self", "let mut self_ = self")
    return new


# ----------------------------------------------------------------------------------------
# function surgery: contracts, loop invariants, proof anchors
# ----------------------------------------------------------------------------------------

def fn_split(text):
    """(header, body) where body starts with '{'.  header ends right before it."""
    code = rl.code_toks(rl.lex(text))
    k = 0
    while k < len(code) and not (code[k].kind == "ident" and code[k].text == "fn"):
        k += 1
    if k == len(code):
        raise Unsupported("no fn")
    j = k
    while j < len(code):
        t = code[j]
        if t.kind == "punct" and t.text in "([":
            j = rl.match_close(code, j) + 1
            continue
        if t.kind == "punct" and t.text == "{":
            return text[:t.start], text[t.start:]
        if t.kind == "punct" and t.text == ";":
            return text[:t.start], None
        j += 1
    raise Unsupported("fn without body")


def name_return(header, ret):
    """-> T   =>   -> (ret: T)"""
    code = rl.code_toks(rl.lex(header))
    # find top-level '->' after the parameter list
    k = 0
    while k < len(code) and not (code[k].kind == "ident" and code[k].text == "fn"):
        k += 1
    j = k
    while j < len(code) and code[j].text != "(":
        if code[j].text == "<":
            # generics: skip to matching >
            d = 0
            while j < len(code):
                if code[j].text == "<":
                    d += 1
                elif code[j].text == ">":
                    d -= 1
                    if d == 0:
                        break
                j += 1
        j += 1
    close = rl.match_close(code, j)
    if close + 2 < len(code) and code[close + 1].text == "-" and code[close + 2].text == ">":
        t0 = code[close + 2].end
        # return type extends to `where` or end
        t1 = len(header)
        for q in range(close + 3, len(code)):
            if code[q].kind == "ident" and code[q].text == "where":
                t1 = code[q].start
                break
        ty = header[t0:t1].strip()
        return header[:t0] + " (%s: %s)" % (ret, ty) + (" " if t1 < len(header) else "") + header[t1:] if t1 < len(header) else header[:t0] + " (%s: %s)" % (ret, ty)
    raise Unsupported("name_return: function has no return type: " + rl.norm_ws(header))


def find_loops(body):
    """offsets (kw_start, body_open_brace_offset) of every loop in textual order."""
    code = rl.code_toks(rl.lex(body))
    loops = []
    for k, t in enumerate(code):
        if t.kind == "ident" and t.text in ("while", "for", "loop"):
            if t.text == "for" and k > 0 and code[k - 1].text in ("<", "impl", ">"):
                continue  # for<'a> / impl X for Y
            if t.text == "for":
                # must be followed by pattern ... `in`
                ok = False
                for q in range(k + 1, min(k + 30, len(code))):
                    if code[q].kind == "ident" and code[q].text == "in":
                        ok = True
                        break
                    if code[q].text in "{;":
                        break
                if not ok:
                    continue
            j = k + 1
            while j < len(code):
                tj = code[j]
                if tj.kind == "punct" and tj.text in "([":
                    j = rl.match_close(code, j) + 1
                    continue
                if tj.kind == "punct" and tj.text == "{":
                    break
                j += 1
            if j >= len(code):
                raise Unsupported("loop without body")
            loops.append((t.start, code[j].start, code[rl.match_close(code, j)].start))
    return loops


def indent(text, n):
    pad = " " * n
    return "\n".join((pad + ln if ln.strip() else ln) for ln in text.strip("\n").split("\n"))


def splice(body, loops_spec, proofs, key):
    """Insert loop invariants and proof blocks into body (text starting with '{').
    loops_spec: list (by loop ordinal, 1-based) of invariant text or None.
    proofs: dict anchor -> text.  Anchors: 'body-start', 'body-end', 'loopK-start', 'loopK-end',
            'before#N:<exact text>', 'after#N:<exact text>'."""
    inserts = []  # (offset, text, tag)
    loops = find_loops(body)
    if loops_spec:
        if len(loops_spec) > len(loops):
            raise LostAnchor("%s: %d loop specs but %d loops in body" % (key, len(loops_spec), len(loops)))
        for i, spec in enumerate(loops_spec):
            if spec:
                inserts.append((loops[i][1], "\n" + indent(spec, 12) + "\n        ", "loopinv%d" % (i + 1)))
    n_loops_with_spec = sum(1 for s in (loops_spec or []) if s)
    if len(loops) != len(loops_spec or []) and loops:
        # every loop must have a spec entry (possibly None is not allowed: Verus needs decreases)
        raise LostAnchor("%s: body has %d loops, unit describes %d" % (key, len(loops), len(loops_spec or [])))
    for anchor, ptxt in (proofs or {}).items():
        if anchor == "body-start":
            off = 1
        elif anchor == "body-end":
            off = body.rstrip().rfind("}")
        elif re.match(r"loop(\d+)-(start|end)$", anchor):
            m = re.match(r"loop(\d+)-(start|end)$", anchor)
            li = int(m.group(1)) - 1
            if li >= len(loops):
                raise LostAnchor("%s: anchor %s: no such loop" % (key, anchor))
            off = loops[li][1] + 1 if m.group(2) == "start" else loops[li][2]
        else:
            m = re.match(r"(before|after)#(\d+):(.*)$", anchor, re.S)
            if not m:
                raise Unsupported("bad anchor " + anchor)
            needle, nth = m.group(3), int(m.group(2))
            pos = -1
            for _ in range(nth):
                pos = body.find(needle, pos + 1)
                if pos < 0:
                    raise LostAnchor("%s: anchor text `%s` (#%d) not found" % (key, needle, nth))
            off = pos if m.group(1) == "before" else pos + len(needle)
        inserts.append((off, "\n" + indent(ptxt, 12) + "\n        ", "proof:" + anchor))
    inserts.sort(key=lambda x: x[0])
    out, last = [], 0
    for off, txt, tag in inserts:
        out.append((body[last:off], "code"))
        out.append((txt, tag))
        last = off
    out.append((body[last:], "code"))
    return out


# ----------------------------------------------------------------------------------------
# Unit
# ----------------------------------------------------------------------------------------

class Unit:
    def __init__(self, name, features=None, repo=None):
        self.name = name
        self.repo = repo or REPO
        self.features = set(features) if features is not None else set(DEFAULT_FEATURES)
        self.chunks = []      # (text, meta)
        self.functions = []   # records for evidence
        self.expected = []    # function names that must appear in verus func-details
        self.props_of = {}    # item key -> list of property ids
        self._src_cache = {}
        self.stub_keys = {}   # key -> reason: functions whose body left the verifier's reach; replaced by an assumed stub
        self.stubbed = {}     # key -> {"reason":.., "props": [...]} actually stubbed in this generation

    # -- source access
    def src(self, path):
        if path not in self._src_cache:
            p = os.path.join(self.repo, path)
            if not os.path.exists(p):
                raise LostAnchor("file %s missing" % path)
            self._src_cache[path] = open(p, encoding="utf-8").read()
        return self._src_cache[path]

    # -- emit helpers
    def emit(self, text, kind="glue", key=None, props=None):
        if not text.endswith("\n"):
            text += "\n"
        self.chunks.append((text, {"kind": kind, "key": key, "props": props or []}))

    def prelude_file(self, relpath, props=None):
        p = os.path.join(os.path.dirname(os.path.dirname(os.path.abspath(__file__))), relpath)
        self.emit(open(p).read(), kind="spec", key="spec:" + relpath, props=props)

    def spec(self, text, key, props=None):
        """hand-written spec / lemma text (part of the specification, listed as such)."""
        self.emit(text, kind="spec", key=key, props=props)

    def _apply(self, text, rules, key):
        ctx = Ctx(self, key)
        for r in rules:
            text = r(text, ctx)
        return text, ctx.apps

    def type_item(self, path, kind, name, rules=(), key=None, opaque_fields=False, props=None, vis_pub=True, keep_derive=(), keep_fields=None):
        src = self.src(path)
        it = rl.find_type(path, src, kind, name)
        raw = it.text
        text, apps = self._apply(raw, [r_attr, r_cfg] + list(rules), key or name)
        if keep_fields is not None:
            # R-fields: project a struct on the fields the unit's functions read (each must exist in /repo)
            o = text.index("{")
            c = text.rindex("}")
            fields = [f.strip() for f in split_top(text[o + 1:c]) if f.strip()]
            kept, names = [], []
            for f in fields:
                m = re.match(r"(?:pub(?:\([a-z]+\))?\s+)?(r#)?([a-z_0-9]+)\s*:", f)
                if m and (m.group(2) in keep_fields):
                    kept.append("    pub " + re.sub(r"^pub(\([a-z]+\))?\s+", "", f))
                    names.append(m.group(2))
            missing = [k for k in keep_fields if k not in names]
            if missing:
                raise LostAnchor("%s %s: field(s) %s not found" % (kind, name, missing))
            text = text[:o + 1] + "\n" + "".join(k + ",\n" for k in kept) + text[c:]
            apps.append({"rule": "R-fields", "before": "%d fields" % len(fields), "after": "kept: " + ", ".join(names)})
        if keep_derive:
            # re-attach the subset of the item's own derives that Verus understands (must be present in /repo)
            m = re.search(r"#\[derive\(([^)]*)\)\]", raw)
            have = set(x.strip() for x in m.group(1).split(",")) if m else set()
            missing = [d for d in keep_derive if d not in have and d != "Structural"]   # Structural: Verus marker for derived structural ==
            if missing:
                raise LostAnchor("%s %s: derive(%s) not present in /repo" % (kind, name, ", ".join(missing)))
            text = "#[derive(%s)]\n" % ", ".join(keep_derive) + text
            apps.append({"rule": "R-attr-keep", "before": "derive(%s)" % ", ".join(sorted(have)), "after": "derive(%s) kept" % ", ".join(keep_derive)})
        self.functions.append({"item": "%s %s" % (kind, name), "file": path, "line": it.line,
                               "sha256": hashlib.sha256(raw.encode()).hexdigest(), "rules": apps, "kind": "type"})
        self.emit(text, kind="type", key=key or name, props=props)
        return text

    def fn(self, path, block, name, spec=None, ret=None, loops=None, proofs=None, rules=(), key=None,
           props=None, rename=None, header_rules=(), expect=True, strip_pub=False, as_free=False,
           block_index=0, prefix="", no_canary=False, vpath=None, params=None):
        """Extract fn `name` from `block` (impl/trait header text, or None for file level) of `path`."""
        src = self.src(path)
        blk = None
        if block is not None:
            blks = rl.find_block(path, src, block)
            if block_index >= len(blks):
                raise LostAnchor("%s: block `%s` #%d not found" % (path, block, block_index))
            # choose the block that contains the fn when several impls share a header
            chosen = None
            for b in blks[block_index:] if block_index else blks:
                try:
                    rl.find_fn(path, src, b, name)
                    chosen = b
                    break
                except LostAnchor:
                    continue
            if chosen is None:
                raise LostAnchor("%s: fn `%s` not found in any `%s`" % (path, name, block))
            blk = chosen
        it = rl.find_fn(path, src, blk, name)
        raw = it.text
        key = key or ("%s::%s" % (block or path, name))
        stub_reason = self.stub_keys.get(key)
        try:
            text, apps = self._apply(raw, [r_attr, r_cfg] + list(rules), key)
        except (LostAnchor, Unsupported) as e:
            # the body no longer matches a rewrite rule: keep the signature + contract as an ASSUMED stub so that the
            # rest of the unit (other properties) can still be decided; this function's properties become undecided
            stub_reason = stub_reason or ("%s: %s" % (type(e).__name__, e))
            text, apps = raw, []
            for r in [r_attr, r_cfg] + list(rules):
                ctx = Ctx(self, key)
                try:
                    text = r(text, ctx)
                    apps += ctx.apps
                except (LostAnchor, Unsupported):
                    pass
        if params:
            # R-param: the contract names the parameters; a function whose parameters were RENAMED in /repo is brought back to the
            # contract's names (positional, whole-word substitution in header and body) - a rename is not a reason to lose the proof
            h0, b0 = fn_split(text)
            ct0 = rl.code_toks(rl.lex(h0))
            k0 = next((i for i, t in enumerate(ct0) if t.text == "("), None)
            if k0 is not None:
                c0 = rl.match_close(ct0, k0)
                plist = [x.strip() for x in split_top(h0[ct0[k0].end:ct0[c0].start]) if x.strip()]
                names = []
                for x in plist:
                    m = re.match(r"(?:mut\s+)?([a-z_][a-z0-9_]*)\s*:", x)
                    if m:
                        names.append(m.group(1))
                ren = [(a, b) for a, b in zip(names, params) if a != b and b]
                if ren and len(names) == len(params) and not any(re.search(r"\b%s\b" % re.escape(b), text) for _, b in ren):
                    for a, b in ren:
                        text = re.sub(r"\b%s\b" % re.escape(a), b, text)
                    apps.append({"rule": "R-param", "before": ", ".join(a for a, _ in ren), "after": ", ".join(b for _, b in ren)})
        header, body = fn_split(text)
        if not stub_reason and body is not None:
            # an exec closure left in the body after the rewrite rules has no contract: Verus sees nothing of what it computes, so
            # a proof that depends on it can only fail for lack of information.  Unsupported construct (UNDECIDED), not a violation.
            ct = rl.code_toks(rl.lex(body))
            for k, t in enumerate(ct):
                if t.kind == "punct" and t.text == "|" and k > 0 and (ct[k - 1].text in ("=", "(", ",", "{", ";", "move", "return") and not (ct[k - 1].text == "=" and k > 1 and ct[k - 2].text in ("|", "!", "<", ">", "="))):
                    stub_reason = "Unsupported: closure without a contract in the body (`%s`)" % rl.norm_ws(body[t.start:t.start + 40])
                    break
        if not stub_reason and body is not None and (loops or proofs):
            # pre-flight: the loop invariants / proof hints must still find their anchors in this body; if not, only this
            # function leaves the annotations' reach (stub), not the whole unit
            try:
                list(splice(body, loops, proofs, key))
            except (LostAnchor, Unsupported) as e:
                stub_reason = "%s: %s" % (type(e).__name__, e)
        if stub_reason and body is not None:
            body = "{ unimplemented!() }"
            prefix = prefix + "#[verifier::external_body]\n    "
            loops, proofs = None, None
            self.stubbed[key] = {"reason": stub_reason[:400], "props": list(props or []), "fname": rename or name}
        for hr in header_rules:
            ctx = Ctx(self, key)
            header = hr(header, ctx)
            apps += ctx.apps
        if rename:
            header = re.sub(r"\bfn\s+%s\b" % re.escape(name), "fn " + rename, header, count=1)
        if ret:
            header = name_return(header, ret)
        header = header.rstrip()
        self._gid = getattr(self, "_gid", 0) + 1
        meta = {"kind": "code", "key": key, "props": props or [], "src": path, "src_line": it.line,
                "gid": self._gid, "fname": rename or name, "canary_ok": bool(spec) and not no_canary and not stub_reason}
        self.chunks.append((prefix + header + "\n", dict(meta, kind="header")))
        if spec:
            # spec: str, or list of (text, props) pieces so that single clauses can be attributed to
            # the properties they carry
            pieces = [(spec, props or [])] if isinstance(spec, str) else spec
            for ptxt, pprops in pieces:
                self.chunks.append((indent(ptxt, 8) + "\n", dict(meta, kind="contract", props=list(pprops))))
        if body is None:
            self.chunks.append((";\n", dict(meta)))
        else:
            self.chunks.append(("    ", dict(meta)))
            for seg, tag in splice(body, loops, proofs, key):
                self.chunks.append((seg, dict(meta, kind=tag)))
            self.chunks.append(("\n\n", dict(meta)))
        if vpath is None:
            m = re.match(r"(?:impl|trait)(?:<[^>]*>)?\s+(?:.*\bfor\s+)?([A-Za-z_][A-Za-z0-9_]*)", block or "")
            vpath = ("%s::" % m.group(1) if m else "") + (rename or name)
        self.functions.append({"item": key, "file": path, "line": it.line, "vpath": vpath,
                               "sha256": hashlib.sha256(raw.encode()).hexdigest(), "rules": apps, "kind": "fn",
                               "has_contract": bool(spec), "props": props or [], "no_canary": no_canary or bool(stub_reason), "stubbed": stub_reason})
        if expect:
            self.expected.append(rename or name)
        return text

    def arm(self, path, block, fn_name, pattern, new_name, params, spec=None, rules=(), proofs=None, loops=None, props=None, key=None, vpath=None, ret_ty="", prefix0=""):
        """R-arm: extract ONE match arm of fn `fn_name` (the arm whose pattern text is `pattern`) and wrap its block as a
        function `new_name(params)` whose parameters are the pattern bindings + the enclosing function's parameters.
        The other arms are not claimed by this unit."""
        src = self.src(path)
        blk = rl.find_block(path, src, block)[0] if block else None
        it = rl.find_fn(path, src, blk, fn_name)
        raw_fn = it.text
        i = raw_fn.find(pattern)
        if i < 0:
            raise LostAnchor("%s: arm `%s` not found in fn %s" % (path, pattern, fn_name))
        j = raw_fn.index("=>", i + len(pattern))
        rest = raw_fn[j + 2:]
        code = rl.code_toks(rl.lex(rest))
        if not code or code[0].text != "{":
            raise Unsupported("%s: arm `%s` is not a block" % (path, pattern))
        close = rl.match_close(code, 0)
        body_raw = rest[code[0].start:code[close].end]
        key = key or "%s::%s[arm %s]" % (block or path, fn_name, pattern)
        fake = "fn %s(%s)%s %s" % (new_name, params, (" -> " + ret_ty) if ret_ty else "", body_raw)
        ctx = Ctx(self, key)
        ctx.app("R-arm", "arm `%s` of fn %s" % (pattern, fn_name), "fn %s(%s)" % (new_name, params))
        text = fake
        stub_reason = self.stub_keys.get(key)
        try:
            for r in [r_attr, r_cfg] + list(rules):
                text = r(text, ctx)
        except (LostAnchor, Unsupported) as e:
            stub_reason = stub_reason or ("%s: %s" % (type(e).__name__, e))
        header, body = fn_split(text)
        prefix = prefix0
        if stub_reason:
            body = "{ unimplemented!() }"
            prefix = "#[verifier::external_body]\n    "
            loops, proofs = None, None
            self.stubbed[key] = {"reason": stub_reason[:400], "props": list(props or []), "fname": new_name}
        self._gid = getattr(self, "_gid", 0) + 1
        line = src.count("\n", 0, it.start + i) + 1
        meta = {"kind": "code", "key": key, "props": props or [], "src": path, "src_line": line, "gid": self._gid, "fname": new_name, "canary_ok": bool(spec) and not stub_reason}
        self.chunks.append((prefix + header.rstrip() + "\n", dict(meta, kind="header")))
        if spec:
            pieces = [(spec, props or [])] if isinstance(spec, str) else spec
            for ptxt, pprops in pieces:
                self.chunks.append((indent(ptxt, 8) + "\n", dict(meta, kind="contract", props=list(pprops))))
        self.chunks.append(("    ", dict(meta)))
        for seg, tag in splice(body, loops, proofs, key):
            self.chunks.append((seg, dict(meta, kind=tag)))
        self.chunks.append(("\n\n", dict(meta)))
        self.functions.append({"item": key, "file": path, "line": line, "vpath": vpath or new_name, "sha256": hashlib.sha256(body_raw.encode()).hexdigest(),
                               "rules": ctx.apps, "kind": "fn", "has_contract": bool(spec), "props": props or [], "no_canary": bool(stub_reason), "stubbed": stub_reason})
        self.expected.append(new_name)

    # -- output
    def canary(self, text, key):
        """A proof obligation that MUST fail (vacuity guard); only emitted in canary mode."""
        self.chunks.append((text if text.endswith("\n") else text + "\n", {"kind": "canary", "key": key, "props": []}))

    def generate(self, canary=False):
        chunks = []
        group = []
        for idx, (ctext, meta) in enumerate(self.chunks):
            if meta["kind"] == "canary" and not canary:
                continue
            if canary and meta.get("gid") and meta.get("canary_ok"):
                # canary file: the ORIGINAL is not verified again (it was, in the main file): signature + contract are kept as an
                # assumed stub so that callers see exactly its contract; the canary copy below carries the real body
                if meta["kind"] == "header":
                    chunks.append((re.sub(r"^(\s*)", r"\1#[verifier::external_body]\n\1", re.sub(r"#\[verifier::rlimit\(\d+\)\]\s*", "", ctext), count=1), meta))
                elif meta["kind"] == "contract":
                    chunks.append((ctext, meta))
                else:
                    nxt0 = self.chunks[idx + 1][1] if idx + 1 < len(self.chunks) else {}
                    if nxt0.get("gid") != meta["gid"]:
                        chunks.append(("    { unimplemented!() }\n\n", meta))
            else:
                chunks.append((ctext, meta))
            if canary and meta.get("gid") and meta.get("canary_ok"):
                group.append((ctext, meta))
                nxt = self.chunks[idx + 1][1] if idx + 1 < len(self.chunks) else {}
                if nxt.get("gid") != meta["gid"]:
                    # end of the function's chunks: emit the canary copy (renamed, `ensures false` added);
                    # callers keep seeing the honest contract of the original
                    ctr = [i for i, g in enumerate(group) if g[1]["kind"] == "contract"]
                    if ctr:
                        joined = add_false("".join(group[i][0] for i in ctr))
                        group = [g for i, g in enumerate(group) if i not in ctr[1:]]
                        group[ctr[0]] = (joined, group[ctr[0]][1])
                    for gtext, gmeta in group:
                        cm = dict(gmeta, key="canary:" + gmeta["key"])
                        if gmeta["kind"] == "header":
                            gtext = re.sub(r"\bfn\s+%s\b" % re.escape(gmeta["fname"]), "fn canary__" + gmeta["fname"], gtext, count=1)
                            # a canary only has to be NOT provable: a small resource limit is enough (a refutation and a
                            # give-up both count; a vacuous contract verifies instantly whatever the limit)
                            gtext = re.sub(r"#\[verifier::rlimit\(\d+\)\]\s*", "", gtext)
                            gtext = re.sub(r"^(\s*)", r"\1#[verifier::rlimit(3)]\n\1", gtext, count=1)
                        chunks.append((gtext, cm))
                    group = []
        text = "".join(c[0] for c in chunks)
        bounds, off = [], 0
        for ctext, meta in chunks:
            bounds.append((off, off + len(ctext), meta))
            off += len(ctext)
        linemap, pos, bi = [], 0, 0
        for line in text.split("\n"):
            so = pos + (len(line) - len(line.lstrip())) if line.strip() else pos
            while bi < len(bounds) - 1 and bounds[bi][1] <= so:
                bi += 1
            linemap.append(bounds[bi][2])
            pos += len(line) + 1
        return text, linemap


def add_false(spec):
    """canary mode: make the contract demand `false` - it must then FAIL unless the
    precondition is contradictory (or the function cannot return)."""
    code = rl.code_toks(rl.lex(spec))
    for t in code:
        if t.kind == "ident" and t.text == "ensures":
            return spec[:t.end] + " false," + spec[t.end:]
    for t in code:
        if t.kind == "ident" and t.text == "decreases":
            return spec[:t.start] + "ensures false,\n        " + spec[t.start:]
    return spec.rstrip("\n") + "\n        ensures false,\n"


def make_r_tailbind(var="r_", proof_anchor=True):
    """R-tailbind: `{ stmts; TAIL }`  ->  `{ stmts; let r_ = TAIL; r_ }` so that proof hints can be placed
    between the computation of the result and the return (anchor `before#1:r_\n`).  Nothing is dropped."""

    def r_tailbind(text, ctx):
        header, body = fn_split(text)
        inner = body[1:body.rstrip().rfind("}")]
        # last top-level ';'
        toks = rl.lex(inner)
        depth, last = 0, -1
        for t in toks:
            if t.kind == "punct":
                if t.text in rl.OPEN:
                    depth += 1
                elif t.text in rl.CLOSE:
                    depth -= 1
                elif t.text == ";" and depth == 0:
                    last = t.end
        tail = inner[last if last >= 0 else 0:]
        if not tail.strip():
            raise Unsupported(ctx.key + ": R-tailbind: no tail expression")
        head = inner[:last] if last >= 0 else ""
        new_body = "{" + head + "\n        let %s = %s;\n        %s\n    }" % (var, tail.strip(), var)
        ctx.app("R-tailbind", "tail expression", "let %s = <tail>; %s" % (var, var))
        return header + new_body

    return r_tailbind


def r_unit_tail(text, ctx):
    """R-unit-tail: in a function returning (), terminate the tail expression with `;` so that a proof block
    can follow it.  (`{ e }` and `{ e; }` are the same for e: ().)"""
    header, body = fn_split(text)
    close = body.rstrip().rfind("}")
    inner = body[1:close]
    if inner.rstrip().endswith(";") or inner.rstrip().endswith("}"):
        return text
    ctx.app("R-unit-tail", "tail expression of type ()", "`;` appended")
    return header + "{" + inner.rstrip() + ";\n    }"


def make_r_dyn(mapping):
    """R-dyn: `&mut dyn Trait` / `&dyn Trait` parameters -> generic parameters (`mapping`: trait -> type-parameter name).
    Dynamic dispatch is dropped; every impl of the trait is verified against the same trait-level contract."""

    def r_dyn(text, ctx):
        header, body = fn_split(text)
        gens = []
        for tr, (tp, bound) in mapping.items():
            pat = r"&(mut\s+)?dyn\s+%s\b" % re.escape(tr)
            if re.search(pat, header):
                header = re.sub(pat, lambda m: "&%s%s" % (m.group(1) or "", tp), header)
                gens.append("%s: %s" % (tp, bound))
        if gens:
            m = re.search(r"\bfn\s+([A-Za-z_][A-Za-z0-9_]*)\s*(<)?", header)
            if m.group(2):
                header = header[:m.end()] + ", ".join(gens) + ", " + header[m.end():]
            else:
                header = header[:m.end(1)] + "<" + ", ".join(gens) + ">" + header[m.end(1):]
            ctx.app("R-dyn", "dyn parameters", ", ".join(gens))
        if body is not None:
            body, k = re.subn(r"\b([a-z_]+)\.as_writer\(\)", r"\1", body)
            body, k2 = re.subn(r"\bself as _\b", "self", body)
        return header + (body if body is not None else ";")

    return r_dyn


def r_dynw(text, ctx):
    """R-dynw: `sql: &mut dyn SqlWriter` (or `&mut dyn fmt::Write` / `&mut dyn Write`) -> generic `&mut W`
    with `W: VWrite`; `sql.as_writer()` -> `sql`.  Dynamic dispatch on the writer is dropped; justified because
    both SqlWriter impls are verified against the same trait contract in unit `writer`."""
    pat = r"&mut\s+dyn\s+(?:SqlWriter|fmt::Write|std::fmt::Write|Write)\b"
    n = len(re.findall(pat, text))
    if n == 0:
        raise LostAnchor(ctx.key + ": R-dynw: no dyn writer parameter")
    text = re.sub(pat, "&mut W", text)
    m = re.search(r"\bfn\s+([A-Za-z_][A-Za-z0-9_]*)\s*(<)?", text)
    if m.group(2):
        text = text[:m.end()] + "W: VWrite, " + text[m.end():]
    else:
        text = text[:m.end(1)] + "<W: VWrite>" + text[m.end(1):]
    text, k = re.subn(r"\b([a-z_]+)\.as_writer\(\)", r"\1", text)
    ctx.app("R-dynw", "&mut dyn SqlWriter x%d, .as_writer() x%d" % (n, k), "&mut W, W: VWrite")
    return text


def r_enumerate(text, ctx):
    """R-enumerate: `for (i, X) in C.iter().enumerate() { BODY }`  ->  `let mut i: usize = 0; for X in iteK: C.iter() { BODY; i += 1; }`
    (desugaring of Iterator::enumerate; refuses bodies with continue / break / return, which would skip the increment)."""
    n = 0
    while True:
        m = re.search(r"for \(([a-z_]+), ([a-z_]+)\) in ([A-Za-z_][A-Za-z0-9_\.]*)\.iter\(\)\.enumerate\(\) \{", text)
        if not m:
            break
        open_off = m.end() - 1
        toks = rl.code_toks(rl.lex(text[open_off:]))
        close = rl.match_close(toks, 0)
        body = text[open_off + 1: open_off + toks[close].start]
        if re.search(r"\b(return|break|continue)\b", body):
            raise Unsupported(ctx.key + ": R-enumerate: loop body has non-local control flow")
        n += 1
        i, x, coll = m.group(1), m.group(2), m.group(3)
        new = "let mut %s: usize = 0;\n        for %s in ite%d: %s.iter() {%s    %s += 1;\n        }" % (i, x, n, coll, body, i)
        ctx.app("R-enumerate", rl.norm_ws(m.group(0)), "let mut %s: usize = 0; for %s in ite%d: %s.iter() { ..; %s += 1; }" % (i, x, n, coll, i))
        text = text[:m.start()] + new + text[open_off + toks[close].end:]
    if n == 0:
        raise LostAnchor(ctx.key + ": R-enumerate: no `for (i, x) in c.iter().enumerate()` loop")
    return text


def _tail_self_call(inner):
    """the body's tail expression is ONE call `self.method( .. )` (arguments may span lines and contain struct literals)"""
    if not inner.endswith(")"):
        return False
    depth = 0
    for k in range(len(inner) - 1, -1, -1):
        c = inner[k]
        if c in ")]}":
            depth += 1
        elif c in "([{":
            depth -= 1
            if depth == 0:
                head = inner[:k]
                m = re.search(r"(^|[;}])\s*self\s*\.\s*[a-z_][a-z0-9_]*\s*$", head)
                return bool(m) and c == "("
    return False


def r_retself(text, ctx):
    """R-retself: `-> &mut Self { ...; self }`  ->  `{ ...; }`.  The chaining return value (an alias of the receiver) is dropped."""
    header, body = fn_split(text)
    h2, n = re.subn(r"\s*->\s*&mut Self\b", "", header)
    if n != 1:
        raise LostAnchor(ctx.key + ": R-retself: no `-> &mut Self`")
    close = body.rstrip().rfind("}")
    inner = body[1:close].rstrip()
    if re.search(r"(^|[;}\s])self$", inner):
        inner = inner[:-4].rstrip()
    elif re.search(r"\bself\.[a-z_]+\([^;{}]*\)$", inner) or _tail_self_call(inner):
        inner = inner + ";"     # tail call of another chaining method on self (itself rewritten to return ())
    else:
        raise LostAnchor(ctx.key + ": R-retself: body does not end in `self` or a chaining call")
    ctx.app("R-retself", "-> &mut Self ... self", "-> ()")
    return h2 + " {" + inner + "\n    }"


def r_fold(text, ctx):
    """R-fold: `X.iter().fold(true, |first, V| { if !first { SEP } BODY; false });`
         ->   `let mut first = true; for V in it: X.iter() { if !first { SEP } BODY; first = false; }`
       and    `X.iter().for_each(|P| { BODY });`  ->  `for P in it: X.iter() { BODY }`.
    Closure desugaring only; refuses bodies containing return / ? / break / continue."""
    n = 0
    # a receiver chain broken over several lines (`create\n.foreign_key\n.ref_columns\n.iter()\n.fold(`) is one expression
    text = re.sub(r"((?:[A-Za-z_#][A-Za-z0-9_#]*\s*\.\s*)+)iter\(\)\s*\.\s*(fold|for_each)\(", lambda mm: re.sub(r"\s+", "", mm.group(1)) + "iter()." + mm.group(2) + "(", text)
    while True:
        m = re.search(r"([A-Za-z_][A-Za-z0-9_\.#]*)\s*\.iter\(\)\s*\.(fold\((?:true|first), \|(first), ([a-z_]+|\([a-z_, ]+\))\| \{|for_each\(\|([^|]+)\| \{)", text)
        if not m:
            break
        coll = m.group(1)
        is_fold = m.group(3) is not None
        var = m.group(4) if is_fold else m.group(5)
        open_off = m.end() - 1
        toks = rl.code_toks(rl.lex(text[open_off:]))
        close = rl.match_close(toks, 0)
        body = text[open_off + 1: open_off + toks[close].start]
        after = text[open_off + toks[close].end:]
        m2 = re.match(r"\s*\)\s*;", after)
        if not m2:
            raise Unsupported(ctx.key + ": R-fold: closure call is not a statement")
        if re.search(r"\b(return|break|continue)\b|\?\s*;", body):
            raise Unsupported(ctx.key + ": R-fold: closure body has non-local control flow")
        n += 1
        itn = "it%d" % n
        if is_fold:
            b2 = body.rstrip()
            # the closure's tail expression is the flag for the next item: `false`, or any bool expression (`first && ..`)
            tk_ = rl.code_toks(rl.lex(b2))
            depth_, cut_ = 0, 0
            for i_, t_ in enumerate(tk_):
                if t_.kind == "punct" and t_.text in rl.OPEN:
                    depth_ += 1
                elif t_.kind == "punct" and t_.text in rl.CLOSE:
                    depth_ -= 1
                    if depth_ == 0 and t_.text == "}" and i_ + 1 < len(tk_) and tk_[i_ + 1].text not in (".", "?", "else", "&&", "||", "==", "!=", ";"):
                        cut_ = t_.end
                elif t_.kind == "punct" and t_.text == ";" and depth_ == 0:
                    cut_ = t_.end
            tailx = b2[cut_:].strip()
            if not tailx:
                raise Unsupported(ctx.key + ": R-fold: fold closure has no tail expression")
            b2 = b2[:cut_]
            flag = "first"
            init = "first" if re.search(r"fold\(first,", m.group(2)) else "true"   # `fold(first, |first, x|`: the flag starts from a variable named first (shadowed)
            inner = re.search(r"\.iter\(\)\s*\.fold\((?:true|first), \|first,", b2)
            if inner:
                # nested folds: the inner closure's `first` parameter shadows the outer one; the outer flag gets its own name
                flag = "first_o"
                head = b2[:inner.start()]
                tail = b2[inner.start():]
                tk = rl.code_toks(rl.lex(tail))
                k0 = next(i for i, t in enumerate(tk) if t.text == "{")
                after_inner = tail[tk[rl.match_close(tk, k0)].end:]
                # occurrences of `first` in the head after a shadowing `let first = ..;` binding belong to that binding, not to the outer flag
                shadow = re.search(r"\blet first\b", head)
                head_outer = head[:shadow.start()] if shadow else head
                if len(re.findall(r"\bfirst\b", head_outer)) != 1 or "!first" not in head_outer or re.search(r"\bfirst\b", after_inner) or tailx != "false":
                    raise Unsupported(ctx.key + ": R-fold: nested fold whose outer flag is used other than in the leading `if !first`")
                b2 = re.sub(r"!first\b", "!first_o", head, count=1) + b2[inner.start():]
            b2 = b2.rstrip() + "\n            %s = %s;\n        " % (flag, tailx)
            if var.startswith("("):
                # a destructuring closure parameter `|first, (a, b)|`: the item is bound first, then destructured (same bindings)
                b2 = "\n            let %s = item%d_;" % (var, n) + b2
                var = "item%d_" % n
            new = "let mut %s = %s;\n        for %s in %s: %s.iter() {%s}" % (flag, init, var, itn, coll, b2)
        else:
            new = "for %s in %s: %s.iter() {%s}" % (var.strip(), itn, coll, body)
        ctx.app("R-fold", rl.norm_ws(text[m.start():open_off + toks[close].end + m2.end()])[:120], rl.norm_ws(new)[:120])
        text = text[:m.start()] + new + after[m2.end():]
    if n == 0:
        raise LostAnchor(ctx.key + ": R-fold: no fold / for_each closure found")
    return text
