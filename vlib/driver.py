"""Property-level driver: runs the units that decide a property, applies the outcome protocol
(DESIGN 3.4), runs the witness search after a failed obligation, matches known findings, writes
the evidence file."""
import concurrent.futures as cf
import hashlib
import json
import os
import re
import subprocess
import sys
import time

from . import run as vrun
from .props import PROPS

ROOT = os.path.dirname(os.path.dirname(os.path.abspath(__file__)))
REPLAY_DIR = os.path.join(ROOT, "replay")
REPLAY_BIN = os.path.join(REPLAY_DIR, "target", "release", "vreplay")
EVID = os.path.join(ROOT, "evidence")
REPLAY_OUT = os.path.join(ROOT, "replay", "out")
ENV = dict(os.environ, CARGO_NET_OFFLINE="true")


def sh(cmd, cwd=None, timeout=None, env=None):
    try:
        p = subprocess.run(cmd, cwd=cwd, capture_output=True, text=True, timeout=timeout, env=env or ENV)
        return p.returncode, p.stdout, p.stderr
    except subprocess.TimeoutExpired as e:
        return 124, (e.stdout or b"").decode() if isinstance(e.stdout, bytes) else (e.stdout or ""), "timeout"


def build_replay():
    """(re)build the witness-search binary against /repo's working tree."""
    lock = os.path.join(REPLAY_DIR, "Cargo.lock")
    if not os.path.exists(lock):
        import shutil
        shutil.copy("/repo/Cargo.lock", lock)
    rc, out, err = sh(["cargo", "build", "--release", "--offline", "-q"], cwd=REPLAY_DIR, timeout=900)
    return rc == 0, err[-1500:]


def known_findings():
    p = os.path.join(ROOT, "known_findings.json")
    if not os.path.exists(p):
        return []
    return json.load(open(p)).get("findings", [])


def obligation_id(f):
    return "%s :: %s :: %s" % (f["site_item"], f["message"], re.sub(r"\s+", " ", f["clause"])[:160])


def validate_sqlite_oracles():
    """The hand-written SQLite oracles (string literal, quoted identifier, blob literal lexers of replay/src/lexers.rs - the
    executable copies of the spec functions in units escape / ident) against a REAL SQLite engine (python's sqlite3): every
    token the oracle accepts, over a 10-symbol alphabet up to length 5, must be accepted by the engine with the same value.
    Returns (note, mismatches)."""
    try:
        import sqlite3
    except Exception as e:
        return "sqlite3 module unavailable: %s" % e, []
    rc, out, err = sh([REPLAY_BIN, "oracle-sqlite"], timeout=120)
    if rc != 0:
        return "vreplay oracle-sqlite failed", []
    con = sqlite3.connect(":memory:")
    n, bad = 0, []
    for ln in out.splitlines():
        try:
            c = json.loads(ln)
        except Exception:
            continue
        n += 1
        tok, want = c["token"], c["value"]
        try:
            if c["kind"] == "string":
                got = con.execute("SELECT " + tok).fetchone()[0]
            elif c["kind"] == "blob":
                got = con.execute("SELECT " + tok).fetchone()[0].hex()
            else:
                got = con.execute("SELECT 1 AS " + tok).description[0][0]
        except Exception as e:
            got = "<engine error: %s>" % e
        if got != want:
            bad.append("%s token %r: oracle %r, SQLite %s says %r" % (c["kind"], tok, want, sqlite3.sqlite_version, got))
    return "%d SQLite tokens (string / identifier / blob) decoded identically by the oracle and SQLite %s" % (n - len(bad), sqlite3.sqlite_version), bad


def witness_search(prop, f, timeout=120):
    """returns (witnesses:list[dict], note)"""
    if not os.path.exists(REPLAY_BIN):
        return [], "witness search unavailable (replay binary not built)"
    if _TIER == "thorough":
        os.environ["VREPLAY_DEEP"] = "1"   # deeper bounds in every search (replay/src/*.rs: util::deep())
        timeout = max(timeout, 900)
    if prop in ENGINE_PROPS:
        return engine_search(prop, timeout)
    rc, out, err = sh([REPLAY_BIN, "search", prop, f["site_item"] or "", f["clause"] or ""], timeout=timeout)
    ws = []
    for ln in out.splitlines():
        if ln.startswith("WITNESS "):
            try:
                ws.append(json.loads(ln[8:]))
            except Exception:
                pass
    if prop in ("C03", "C08", "C05"):
        # the optional value types (Json, chrono, time, uuid, decimal, network types, arrays): the second native crate, built with those features
        from . import kani as _k
        ns = _k.run_native_search(prop)
        ws += ns["witnesses"]
        if ns["note"]:
            err = (err or "") + " " + ns["note"]
    if rc == 124:
        return ws, "witness search timed out after %ds (possible non-termination on some input)" % timeout
    if rc not in (0, 1):
        return ws, "witness search failed rc=%d %s" % (rc, err[-300:])
    return ws, ""


# properties whose observation is an executing engine: the replay binary produces statements + catalogue / result queries, python's
# sqlite3 (a real SQLite engine) executes them (vlib/engine.py)
ENGINE_PROPS = ("C13", "C07", "C09")
ENGINE_STATS = {}


def engine_search(prop, timeout=300, only_label=None):
    from . import engine
    rc, out, err = sh([REPLAY_BIN, "engine-cases", prop], timeout=timeout)
    if rc != 0:
        return [], "vreplay engine-cases failed rc=%d %s" % (rc, err[-300:])
    lines = out.splitlines()
    if only_label is not None:
        lines = [ln for ln in lines if ln.startswith("CASE ") and json.loads(ln[5:]).get("label") == only_label]
    ws, n, nq = engine.run_cases(lines, prop)
    ENGINE_STATS[prop] = {"cases": n, "statements_and_queries": nq}
    import sqlite3
    note = "%d cases (%d statements / catalogue queries) executed on SQLite %s" % (n, nq, sqlite3.sqlite_version)
    if prop in ("C07", "C09") and only_label is None:
        # literals of the optional value types (Json, date / time, uuid, network types) are written by feature-gated code the first replay crate
        # does not compile: the second native crate decodes each backend's literal with that dialect's lexer (C03's search; C07: SQLite's only)
        from . import kani as _k
        ns = _k.run_native_search("C03")
        for w in ns["witnesses"]:
            if prop == "C09" or str(w.get("observed", "")).startswith("sqlite:"):
                ws.append(dict(w, property=prop))
        if ns["note"]:
            note += " " + ns["note"]
    return ws, note


def write_replay(prop, n, f, witnesses, note, unit_path):
    os.makedirs(REPLAY_OUT, exist_ok=True)
    path = os.path.join(REPLAY_OUT, "%s-%d.json" % (prop, n))
    w = witnesses[0] if witnesses else {}
    doc = {
        "property": prop,
        "obligation": obligation_id(f),
        "function": f["site_item"],
        "clause": f["clause"],
        "clause_in": f["clause_item"],
        "verifier_message": f["message"],
        "verifier_output": f["rendered"],
        "generated_file": unit_path,
        "input": w.get("input"),
        "observed": w.get("observed"),
        "expected": w.get("expected"),
        "all_witnesses": witnesses[:20],
        "note": note,
    }
    json.dump(doc, open(path, "w"), indent=1)
    return path


def match_known(prop, f, witnesses):
    """A failure is a known finding iff a listed finding names this obligation and every witness the
    search produced matches that finding's input pattern (so a different failing input still alarms)."""
    for k in known_findings():
        if k.get("property") != prop or k.get("status", "open") != "open":
            continue
        if k.get("function") != f["site_item"]:
            continue
        if k.get("clause_contains") and k["clause_contains"] not in f["clause"]:
            continue
        # the search is per property, not per obligation: this failure is the recorded finding iff the search shows the
        # finding's input class on the real code.  Witnesses outside every recorded finding are NOT dropped: the caller
        # reports them (with the other failing obligations, or as an unattributed violation).
        if any(known_matches_witness(k, w) for w in witnesses):
            return k
    return None


def known_matches_witness(k, w):
    """input_regex (and observed_regex, when the finding has one) must match the witness"""
    if not re.search(k.get("input_regex", "$^"), w.get("input", ""), re.S):
        return False
    if k.get("observed_regex") and not re.search(k["observed_regex"], w.get("observed", ""), re.S):
        return False
    return True


def drop_known(prop, ws, announce=True):
    """remove witnesses that a listed open finding of this property names; print its KNOWN-FINDING line once"""
    keep, hit = [], {}
    for w in ws:
        ks = [k for k in known_findings() if k.get("property") == prop and k.get("status", "open") == "open" and known_matches_witness(k, w)]
        if ks:
            hit[ks[0]["id"]] = ks[0]
        else:
            keep.append(w)
    if announce:
        for k in hit.values():
            if k["id"] not in _ANNOUNCED:
                _ANNOUNCED.add(k["id"])
                print("KNOWN-FINDING: property=%s %s" % (prop, k["what"]))
    return keep, list(hit.values())


_ANNOUNCED = set()


_TIER = "quick"


def check(prop, tier, seed):
    global _TIER
    _TIER = tier
    t0 = time.time()
    if prop not in PROPS:
        print("UNDECIDED property=%s reason=not claimed (see MANIFEST.not_applicable)" % prop)
        return 2
    P = PROPS[prop]
    if P.get("kind", "verus") != "verus":
        mod = __import__("vlib.%s" % P["kind"], fromlist=["check"])
        return mod.check(prop, tier, seed, P)
    units = [u for u in P["units"] if tier == "thorough" or not u.get("thorough_only")]
    results = []
    with cf.ThreadPoolExecutor(max_workers=8) as ex:
        fut_replay = ex.submit(build_replay)
        futs = []
        for u in units:
            seeds = [seed] if tier == "quick" else [seed, seed + 7919]
            for sd in seeds:
                futs.append((u, sd, ex.submit(run_one, u, sd)))
        for u, sd, fu in futs:
            results.append((u, sd, fu.result()))
        replay_ok, replay_err = fut_replay.result()

    inherit_props(prop, P, results)
    undecided = []
    for u, sd, r in results:
        if isinstance(r, str):
            undecided.append(r)
        elif r["status"] == "undecided":
            # a compile / anchor problem that could not be confined to one function leaves the whole unit undecided
            undecided.append("unit=%s %s" % (r["unit"].name, r.get("why", "")))
        else:
            # functions that left the verifier's reach were replaced by assumed stubs: only the properties they carry
            # are undecided
            for k, info in (r.get("stubbed") or {}).items():
                if prop in info["props"]:
                    undecided.append("unit=%s function `%s` is outside the verifier's reach on this tree (%s)" % (r["unit"].name, k, info["reason"]))
    # trusted std facts
    trusted_note = "not run"
    if replay_ok:
        rc, out, err = sh([REPLAY_BIN, "trusted"], timeout=120)
        trusted_note = out.strip().splitlines()[-1] if out.strip() else "no output"
        if rc != 0:
            undecided.append("trusted std fact mismatch: " + trusted_note)
        if prop in ("C03", "C04"):
            onote, obad = validate_sqlite_oracles()
            trusted_note += " ; oracle validation: " + onote
            if obad:
                undecided.append("SQLite oracle disagrees with the engine (the ORACLE is wrong, not the code): " + "; ".join(obad[:3]))
    else:
        # the real crate (or the replay crate) does not build: nothing can be replayed; proofs are still valid
        trusted_note = "replay crate did not build: " + replay_err[-300:]

    # a failed obligation of this property is a violation whatever else is undecided: report it first
    has_fails = any(isinstance(r, dict) and any(prop in f["props"] for f in r.get("failures", [])) for _, _, r in results)
    if undecided and has_fails:
        for x in undecided:
            print("UNDECIDED property=%s %s" % (prop, x[:600]))
        results = [(u, sd, r) for u, sd, r in results if isinstance(r, dict)]
    elif undecided:
        for x in undecided:
            print("UNDECIDED property=%s %s" % (prop, x[:600]))
        # The verifier could not decide (the code left the extractor's / the annotations' reach).  A bounded witness
        # search on the REAL crate stands in (labelled bounded, never counted as proved): a concrete failing input is a
        # violation whatever the proof status; no witness leaves the property undecided (exit 2).
        bounded = []
        if P.get("search") and replay_ok:
            fake = {"site_item": "(verifier undecided)", "clause": "", "message": "undecided: " + undecided[0][:300], "clause_item": None, "rendered": "\n".join(undecided)[:4000], "props": [prop]}
            ws, note = witness_search(prop, fake, timeout=300)
            ws, _ = drop_known(prop, ws)
            if ws:
                path = write_replay(prop, 1, fake, ws, "verifier undecided (%s); BOUNDED witness search on the real crate found this input" % undecided[0][:200], "")
                bounded.append((fake, path, ws))
                print("BOUNDED-SEARCH: witness on the real code: input=%r observed=%r expected=%r" % (ws[0].get("input"), ws[0].get("observed"), ws[0].get("expected")))
                print("VIOLATION property=%s replay=%s" % (prop, path))
        write_evidence(prop, tier, seed, P, results, bounded, [], time.time() - t0, trusted_note, undecided)
        return 1 if bounded else 2

    # a seed-dependent failure (fails under one seed, passes under another) is instability, not a violation
    by_unit = {}
    for u, sd, r in results:
        by_unit.setdefault(r["unit"].name, []).append(r)
    fails = []
    for name, rs in by_unit.items():
        sets = [set(obligation_id(f) for f in r["failures"] if prop in f["props"]) for r in rs]
        stable = set.intersection(*sets) if sets else set()
        unstable = set.union(*sets) - stable if sets else set()
        if unstable:
            print("UNDECIDED property=%s unit=%s seed-dependent failure(s): %s" % (prop, name, sorted(unstable)[:3]))
            write_evidence(prop, tier, seed, P, results, [], [], time.time() - t0, trusted_note, ["seed-dependent"])
            return 2
        for f in rs[0]["failures"]:
            if prop in f["props"] and obligation_id(f) in stable:
                fails.append((rs[0], f))

    violations, known = [], []
    leftover = []
    n = 0
    for r, f in fails:
        ws, note = witness_search(prop, f) if P.get("search") else ([], "no witness search for this property")
        k = match_known(prop, f, ws)
        if k:
            known.append((k, f))
            if k["id"] not in _ANNOUNCED:
                _ANNOUNCED.add(k["id"])
                print("KNOWN-FINDING: property=%s %s" % (prop, k["what"]))
            rest, _ = drop_known(prop, ws, announce=False)
            leftover += [w for w in rest if w not in leftover]
            continue
        n += 1
        ws, _ = drop_known(prop, ws, announce=False)   # never attach a recorded finding's input to another obligation
        path = write_replay(prop, n, f, ws, note, r["path"])
        violations.append((f, path, ws))
        tail = "" if ws else " no-failing-input-found"
        print("OBLIGATION FAILED: %s" % obligation_id(f))
        if ws:
            print("  witness on the real code: input=%r observed=%r expected=%r" % (ws[0].get("input"), ws[0].get("observed"), ws[0].get("expected")))
        elif note:
            print("  " + note)
        print("VIOLATION property=%s replay=%s%s" % (prop, path, tail))
    if leftover and not violations:
        # a failing input outside every recorded finding, found while confirming a recorded one: a different violation
        n += 1
        fake = {"site_item": "(witness search)", "clause": "", "message": "witness search on the real crate", "clause_item": None, "rendered": "", "props": [prop]}
        path = write_replay(prop, n, fake, leftover, "found by the witness search; not covered by any recorded finding", "")
        violations.append((fake, path, leftover))
        print("WITNESS (outside the recorded findings): input=%r observed=%r expected=%r" % (leftover[0].get("input"), leftover[0].get("observed"), leftover[0].get("expected")))
        print("VIOLATION property=%s replay=%s" % (prop, path))
    # bounded stand-in for the code this property depends on that is NOT under contract (listed in the property's
    # assumptions): the witness search on the real crate.  Labelled bounded; never counted as proved.
    bounded_note = None
    if not violations and P.get("bounded_standin") and replay_ok:
        fake = {"site_item": "(bounded stand-in: %s)" % P["bounded_standin"], "clause": "", "message": "bounded witness search", "clause_item": None, "rendered": "", "props": [prop]}
        ws, note = witness_search(prop, fake, timeout=180)
        ws, known_b = drop_known(prop, ws)
        known += [(k, fake) for k in known_b if k["id"] not in [x["id"] for x, _ in known]]
        bounded_note = "bounded stand-in (%s)%s: %d witness(es)%s" % (P["bounded_standin"], " [thorough tier: one more symbol of string / template length, one more call of history, denser pairs of trees]" if tier == "thorough" else "", len(ws), (" ; " + note) if note else "")
        if ws:
            n += 1
            path = write_replay(prop, n, fake, ws, "all contracts verified; the BOUNDED search over the part of the code that is not under contract found this input", "")
            violations.append((fake, path, ws))
            print("BOUNDED-SEARCH (code not under contract): witness on the real code: input=%r observed=%r expected=%r" % (ws[0].get("input"), ws[0].get("observed"), ws[0].get("expected")))
            print("VIOLATION property=%s replay=%s" % (prop, path))
    write_evidence(prop, tier, seed, P, results, violations, known, time.time() - t0, trusted_note, undecided if has_fails else [], bounded_note)
    if violations:
        return 1
    if undecided and has_fails:
        return 2   # every failing obligation was a recorded finding, but part of the unit is undecided
    tot = sum(r["verified"] for _, _, r in results)
    print("OK property=%s units=%s verified_items=%d wall=%.1fs" % (prop, ",".join(sorted(by_unit)), tot, time.time() - t0))
    return 0


def sqlite_overrides():
    """names of the functions the SQLite backend defines itself (src/backend/sqlite/*.rs): a trait DEFAULT of that name is not what SQLite runs"""
    import glob
    names = set()
    for f in glob.glob("/repo/src/backend/sqlite/*.rs"):
        names |= set(re.findall(r"\bfn\s+([a-z_0-9]+)", open(f, encoding="utf-8").read()))
    return names


def inherit_props(prop, P, results):
    """A property may be carried by the obligations another property's contracts already state (`inherit`: {from: [ids], dialect}): C07 (SQLite) is
    carried by the clause-level contracts written for C08 - restricted to what the SQLite backend RUNS: its own overrides, and the trait
    defaults it does not override; obligations of the MySQL / Postgres overrides (and of defaults SQLite overrides) do not bear on it."""
    inh = P.get("inherit")
    if not inh:
        return
    src, dialect = set(inh["from"]), inh.get("dialect")
    ovr = sqlite_overrides() if dialect == "sqlite" else set()

    only = inh.get("only")

    def applies(key):
        if only is not None:
            if not (bool(key) and re.search(only, key) is not None):
                return False
            if dialect is None:
                return True
        if not key:
            return True
        k = key[7:] if key.startswith("canary:") else key
        if dialect == "sqlite":
            if k.startswith(("MysqlQueryBuilder", "PostgresQueryBuilder", "MysqlTypes", "PostgresTypes")):
                return False
            if "/backend/mysql/" in k or "/backend/postgres/" in k or "/extension/postgres/" in k or "/extension/mysql/" in k:
                return False     # raw quoting sites (unit ident) of the other backends
            m = re.match(r"(?:QueryBuilder|TableBuilder|IndexBuilder|ForeignKeyBuilder|EscapeBuilder|TableRefBuilder|QuotedBuilder)::([a-z_0-9]+)", k)
            if m and m.group(1) in ovr:
                return False
            m2 = re.search(r"\[([^\]]*)\]", k)
            if m2 and re.search(r"MySQL|Postgres", m2.group(1)) and "SQLite" not in m2.group(1):
                return False
        return True

    for u, sd, r in results:
        if not isinstance(r, dict):
            continue
        for f in r.get("failures", []):
            if src & set(f["props"]) and applies(f.get("site_item")) and applies(f.get("clause_item")):
                f["props"] = sorted(set(f["props"]) | {prop})
        for k, info in (r.get("stubbed") or {}).items():
            if src & set(info["props"]) and applies(k) and prop not in info["props"]:
                info["props"] = list(info["props"]) + [prop]
        unit = r.get("unit")
        if unit is None or getattr(unit, "_inherited_" + prop, False):
            continue
        setattr(unit, "_inherited_" + prop, True)
        for fn in unit.functions:
            if fn.get("kind") == "fn" and src & set(fn.get("props") or []) and applies(fn["item"]) and prop not in fn["props"]:
                fn["props"] = list(fn["props"]) + [prop]
        for ctext, meta in unit.chunks:
            if src & set(meta.get("props") or []) and applies(meta.get("key")) and prop not in meta["props"]:
                meta["props"] = list(meta["props"]) + [prop]


def run_one(u, seed):
    try:
        return vrun.run_unit(u["name"], features=u.get("features"), variant=u.get("variant"), seed=seed, threads=4)
    except vrun.Undecided as e:
        return str(e)
    except Exception as e:  # tool crash => undecided, never an alarm
        import traceback
        return "unit=%s internal error: %s %s" % (u["name"], e, traceback.format_exc()[-600:])


def clause_count(u):
    n = 0
    for ctext, meta in u.chunks:
        if meta["kind"] in ("contract",) or meta["kind"].startswith("loopinv"):
            n += len([x for x in re.split(r",\s*\n|,\s*$", ctext) if x.strip()])
    return n


def write_evidence(prop, tier, seed, P, results, violations, known, wall, trusted_note, undecided, bounded_note=None):
    os.makedirs(EVID, exist_ok=True)
    obligations = discharged = 0
    known_obl = []
    functions, rule_apps, samples, canaries, cmds, assumptions_scan = [], {}, [], [], [], []
    solver_ms = 0
    seen_units = set()
    for u, sd, r in results:
        if isinstance(r, str):
            continue
        unit = r["unit"]
        first = unit.name not in seen_units
        seen_units.add(unit.name)
        cmds.append(r["res"]["cmd"])
        # function-level verification conditions reported by verus for this unit that bear on this property:
        # extracted functions carrying the property, plus every spec function / lemma / shim of the unit
        by_vpath = {f["vpath"]: f for f in unit.functions if f.get("kind") == "fn"}
        failed_items = set(x["site_item"] for x in r["failures"] if prop in x["props"])
        known_items = set(f["site_item"] for _, f in known)
        viol_items = set(f["site_item"] for f, _, _ in violations)
        for fname, fr in r["funcs"].items():
            short = fname.split("::", 1)[1] if "::" in fname else fname
            rec = by_vpath.get(short)
            if rec is not None and rec.get("props") and prop not in rec["props"]:
                continue
            ok = fr["success"]
            if rec is not None and not ok and rec["item"] not in failed_items:
                ok = True  # it failed, but on a clause that carries another property
            item = rec["item"] if rec is not None else short   # lemmas / spec items are keyed by their own name
            if rec is None and not ok:
                # a lemma / spec item that fails: it bears on this property only if the failing site carries it (a stage lemma of another
                # property's recorded finding is neither an obligation of this property nor claimed here)
                fl = [x for x in r["failures"] if x["site_item"] == item]
                if fl and not any(prop in x["props"] for x in fl):
                    continue
            if not ok and item in known_items and item not in viol_items:
                # fails only on a listed known finding: reported (KNOWN-FINDING line, known_findings_matched,
                # known_finding_obligations) and NOT counted among the obligations this run claims as proved
                known_obl.append(item)
                continue
            obligations += 1
            discharged += 1 if ok else 0
            solver_ms += fr.get("time_us", 0) / 1000.0
        if not first:
            continue
        for f in unit.functions:
            if f.get("kind") == "fn" and prop not in f.get("props", []) and f.get("props"):
                continue
            functions.append({"item": f["item"], "file": f["file"], "line": f["line"], "sha256": f["sha256"],
                              "has_contract": f.get("has_contract", None), "rules": [a["rule"] for a in f["rules"]]})
            for a in f["rules"]:
                rule_apps[a["rule"]] = rule_apps.get(a["rule"], 0) + 1
        if r.get("canary"):
            canaries.append({"unit": unit.name, "checked": r["canary"]["checked"], "vacuous": r["canary"]["vacuous"]})
        text = open(r["path"]).read()
        for kw in ("assume(", "admit(", "external_body", "assume_specification", "axiom fn", "uninterp spec fn"):
            c = text.count(kw)
            if c:
                assumptions_scan.append("%s: %d occurrence(s) of `%s` in %s" % (unit.name, c, kw, os.path.basename(r["path"])))
        # samples: a few discharged obligations written out
        k = 0
        for ctext, meta in unit.chunks:
            if meta["kind"] == "contract" and prop in meta.get("props", []) and k < 4:
                samples.append({"function": meta["key"], "source": "%s:%s" % (meta.get("src"), meta.get("src_line")),
                                "contract": re.sub(r"\s+", " ", ctext).strip()[:600], "status": "failed" if meta["key"] in failed_items else "discharged"})
                k += 1
    if not samples:
        samples = [{"note": "no contract clause carried this property in this run"}]
    ev = {
        "property_id": prop,
        "tier": tier,
        "seed": seed,
        "level": "proof",
        "coverage": {
            "obligations": obligations,
            "discharged": discharged,
            "obligation_unit": "one per function / lemma / spec-termination check reported by `verus --output-json` (func-details); each bundles all requires-at-call, ensures, invariant, decreases and overflow conditions of that function",
            "contract_clauses": sum(clause_count(r["unit"]) for _, _, r in results if not isinstance(r, str)),
            "checker_cmd": " ; ".join(sorted(set(cmds))),
            "back_end": "Verus 0.2026.09.13 (Z3)",
            "trusted_base": P.get("trusted_base", []),
            "samples": samples,
            "functions_under_contract": functions,
            "rewrite_rule_applications": rule_apps,
            "canaries": canaries,
            "solver_time_ms": round(solver_ms, 1),
            "trusted_std_facts_native_validation": trusted_note,
            "assumption_scan": assumptions_scan,
            "known_findings_matched": [k["id"] for k, _ in known],
            "known_finding_obligations": sorted(set(known_obl)),
            "known_finding_note": "functions listed in known_finding_obligations FAIL their contract on this tree for the recorded known finding only; they are excluded from obligations/discharged and are not claimed as proved",
            "bounded_checks": P.get("bounded", []) + ([bounded_note] if bounded_note else []),
            "undecided": undecided,
            "failed_obligations": [obligation_id(f) for f, _, _ in violations],
        },
        "assumptions": P.get("assumptions", []),
        "wall_s": round(wall, 2),
        "violations": len(violations),
    }
    if obligations == 0:
        # nothing could be verified on this tree (undecided): not a proof-level run
        ev["level"] = "other"
        ev["coverage"]["explanation"] = "UNDECIDED: no obligation could be generated / checked on this tree: " + "; ".join(undecided)[:1500]
    json.dump(ev, open(os.path.join(EVID, "%s.json" % prop), "w"), indent=1)


def replay(prop, path):
    if prop in PROPS and PROPS[prop].get("kind", "verus") != "verus":
        # rustc / Kani obligations are re-decided by re-running the check itself on the current tree
        rc = check(prop, "quick", 0)
        print("REPLAY: %s" % ("still fails" if rc == 1 else "no longer fails" if rc == 0 else "undecided"))
        return rc
    ok, err = build_replay()
    if not ok:
        print("UNDECIDED replay crate does not build: " + err[-400:])
        return 2
    if prop in ENGINE_PROPS:
        label = json.load(open(path)).get("input")
        if not label:
            print("REPLAY: nothing to re-run (no concrete input in file)")
            return 0
        ws, note = engine_search(prop, only_label=label)
        if ws:
            print("REPLAY: still fails: %s" % json.dumps(ws[0]))
            return 1
        print("REPLAY: input no longer fails (%s)" % note)
        return 0
    rc, out, err = sh([REPLAY_BIN, "replay", path], timeout=300)
    print(out.strip())
    return rc
