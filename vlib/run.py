"""Runs one Verus unit: generate from /repo, verify, run the canary variant, classify the
diagnostics into obligation failures (=> possible VIOLATION) and everything else (=> UNDECIDED)."""
import importlib
import json
import os
import re
import subprocess
import time

from . import gen
from .rustlex import LostAnchor, Unsupported

ROOT = os.path.dirname(os.path.dirname(os.path.abspath(__file__)))
BUILD = os.environ.get("VERIF_BUILD") or os.path.join(ROOT, "build", "gen")   # VERIF_BUILD: development only (parallel scratch runs)

# messages Verus prints for an undischarged proof obligation
VERIF_MSGS = (
    "postcondition not satisfied",
    "precondition not satisfied",
    "assertion failed",
    "invariant not satisfied",
    "loop invariant not",
    "decreases not satisfied",
    "could not prove termination",
    "possible arithmetic underflow/overflow",
    "possible division by zero",
    "possible bit shift underflow/overflow",
    "unreachable_unchecked",
    "cannot show invariant holds",
    "loop ensures not satisfied",
    "recommendation not met",
    "assert_by",
    "failed to satisfy",
    "split assertion failure",
    "may panic",
    "unable to prove",
    "constructed value may fail to meet its declared type invariant",
)
UNDECIDED_MSGS = ("rlimit", "Resource limit", "timed out", "timeout")


class Undecided(Exception):
    pass


def load_unit(name, features=None, variant=None, stub_keys=None):
    mod = importlib.import_module("units.%s.unit" % name)
    u = gen.Unit(name if not variant else "%s-%s" % (name, variant), features=features)
    u.stub_keys = dict(stub_keys or {})
    try:
        if variant is not None:
            mod.build(u, variant)
        else:
            mod.build(u)
    except (LostAnchor, Unsupported) as e:
        raise Undecided("unit=%s reason=%s: %s" % (name, type(e).__name__, e))
    return u


def verus(path, seed=0, threads=8, extra=(), multiple_errors=20):
    cmd = ["verus", path, "--output-json", "--time", "--error-format=json", "--multiple-errors", str(multiple_errors),
           "--num-threads", str(threads)] + list(extra)
    t0 = time.time()
    p = subprocess.run(cmd, capture_output=True, text=True, cwd=os.path.dirname(path))
    wall = time.time() - t0
    out = None
    try:
        out = json.loads(p.stdout)
    except Exception:
        pass
    diags = []
    for ln in p.stderr.splitlines():
        ln = ln.strip()
        if ln.startswith("{"):
            try:
                diags.append(json.loads(ln))
            except Exception:
                pass
    return {"cmd": " ".join(cmd), "rc": p.returncode, "json": out, "diags": diags, "stderr": p.stderr, "wall": wall}


def primary_span(d):
    sp = [s for s in d.get("spans", []) if s.get("is_primary")]
    return sp[0] if sp else (d.get("spans") or [None])[0]


def classify(res, linemap):
    """-> (failures, others).  failures: obligation failures with the item they belong to."""
    failures, others = [], []
    for d in res["diags"]:
        if d.get("level") != "error":
            continue
        msg = d.get("message", "")
        if msg.startswith("aborting due to"):
            continue
        sp = primary_span(d)
        line = sp["line_start"] if sp else None
        meta = linemap[line - 1] if (line and 0 < line <= len(linemap)) else {"kind": "?", "key": None, "props": []}
        # the function the failure is IN: use the span labelled 'at the end of the function body' /
        # the call site etc.  Verus reports the failed clause as primary; for precondition failures the
        # primary span is the clause in the CALLEE, the secondary is the call site in the caller.
        sec = [s for s in d.get("spans", []) if not s.get("is_primary")]
        site_meta = None
        for s in sec:
            l2 = s["line_start"]
            if 0 < l2 <= len(linemap):
                site_meta = linemap[l2 - 1]
                break
        site = site_meta or meta
        is_verif = any(msg.startswith(m) or m in msg for m in VERIF_MSGS) and d.get("code") is None
        # attribution: a failed postcondition / invariant belongs to the properties its CLAUSE carries;
        # a failed precondition (primary span = call site) belongs to the calling function's properties;
        # a compile-level error belongs to the item containing its primary span
        if not is_verif:
            site, clause_meta, pr = meta, meta, meta.get("props", [])
        elif "precondition" in msg:
            pr = meta.get("props", [])
            site, clause_meta = meta, (site_meta or meta)
        else:
            clause_meta = meta
            pr = meta.get("props", []) if meta.get("kind") in ("contract",) else site.get("props", []) or meta.get("props", [])
        rec = {
            "message": msg,
            "line": line,
            "clause": (sp["text"][0]["text"].strip() if sp and sp.get("text") else ""),
            "clause_item": clause_meta.get("key"),
            "clause_kind": clause_meta.get("kind"),
            "site_item": site.get("key"),
            "site_kind": site.get("kind"),
            "props": sorted(set(pr)),
            "rendered": d.get("rendered", "")[:4000],
        }
        if any(m in msg for m in UNDECIDED_MSGS):
            others.append(dict(rec, why="resource limit"))
        elif any(msg.startswith(m) or m in msg for m in VERIF_MSGS) and d.get("code") is None:
            failures.append(rec)
        else:
            others.append(dict(rec, why="not a verification error (compile / unsupported construct)"))
    return failures, others


def func_results(res):
    """{function path: success} from verus --output-json func-details"""
    out = {}
    j = res.get("json") or {}
    fd = j.get("func-details") or {}

    def walk(x):
        if isinstance(x, dict):
            if "function" in x and "success" in x:
                out[x["function"]] = {"success": x["success"], "time_us": x.get("time-micros", 0), "rlimit": x.get("rlimit", 0), "mode": x.get("mode:", x.get("mode", ""))}
            for v in x.values():
                walk(v)
        elif isinstance(x, list):
            for v in x:
                walk(v)

    walk(j.get("times-ms", {}))
    walk(fd)
    return out


import concurrent.futures as _cf
_POOL = _cf.ThreadPoolExecutor(max_workers=8)


def run_unit(name, features=None, variant=None, seed=0, canary=True, threads=8):
    """returns dict(status, failures, others, funcs, canary..., unit, paths)"""
    os.makedirs(BUILD, exist_ok=True)
    extra = []
    if seed:
        extra += ["--smt-option", "smt.random_seed=%d" % (seed % 1000)]
    stub_keys = {}
    for attempt in range(4):
        u = load_unit(name, features, variant, stub_keys)
        text, linemap = u.generate(canary=False)
        base = u.name.replace("-", "_") + ("_s%d" % seed if seed else "")   # one file per (unit, seed): thorough runs seeds in parallel
        path = os.path.join(BUILD, base + ".rs")
        open(path, "w").write(text)
        # the canary variant of the same extraction is verified concurrently (its result is only used when the main run is
        # decided; if a function has to be stubbed both are redone)
        cfut = None
        if canary:
            ctext, clinemap = u.generate(canary=True)
            cpath = os.path.join(BUILD, base + "_canary.rs")
            open(cpath, "w").write(ctext)
            cfut = _POOL.submit(verus, cpath, seed, threads, [], 1)
        res = verus(path, seed, threads, extra)
        f0, o0 = classify(res, linemap)
        if o0 and all(o.get("why") == "resource limit" for o in o0):
            # a resource-limit give-up (sometimes a side effect of ANOTHER function's failure in the same solver session):
            # one retry with three times the limit before the function is given up as undecided
            res2 = verus(path, seed, threads, list(extra) + ["--rlimit", "30"])
            f2, o2 = classify(res2, linemap)
            if len(o2) < len(o0):
                res, f0, o0 = res2, f2, o2
        # compile-level problems inside an EXTRACTED function: stub that function (assumed contract) and retry, so
        # that properties which do not depend on it are still decided
        new = {}
        for o in o0:
            k = o.get("site_item")
            if k and o.get("site_kind") not in ("spec", "glue", "?", None) and k not in stub_keys and any(f["item"] == k and f.get("kind") == "fn" for f in u.functions):
                new[k] = "%s [%s]" % (o["message"][:200], o["why"])
        if not new:
            break
        stub_keys.update(new)
    failures, others = classify(res, linemap)
    funcs = func_results(res)
    vr = (res["json"] or {}).get("verification-results", {})
    result = {
        "stubbed": dict(u.stubbed),
        "unit": u, "path": path, "res": res, "failures": failures, "others": others, "funcs": funcs,
        "verified": vr.get("verified", 0), "errors": vr.get("errors", 0), "wall": res["wall"],
        "smt_ms": ((res["json"] or {}).get("times-ms", {}).get("smt", {}) or {}).get("total") if isinstance((res["json"] or {}).get("times-ms", {}).get("smt"), dict) else None,
        "total_ms": (res["json"] or {}).get("times-ms", {}).get("total"),
    }
    if res["json"] is None:
        result["status"] = "undecided"
        result["why"] = "verus produced no JSON (crash?): " + res["stderr"][-500:]
        return result
    if others:
        result["status"] = "undecided"
        result["why"] = "; ".join("%s @%s [%s]" % (o["message"][:160], o["site_item"], o["why"]) for o in others[:5])
    elif failures:
        result["status"] = "failed"
    elif not vr.get("success"):
        result["status"] = "undecided"
        result["why"] = "verus reported failure without a classified diagnostic: " + res["stderr"][-500:]
    else:
        result["status"] = "ok"
    # expected functions present?
    stub_names = set(v.get("fname") or k.split("::")[-1].split("[")[0] for k, v in u.stubbed.items())
    missing = [f for f in u.expected if f not in stub_names and not any(k.endswith("::" + f) for k in funcs)]
    if missing and result["status"] == "ok":
        result["status"] = "undecided"
        result["why"] = "expected functions not verified (vacuity guard): %s" % missing
    # canary variant
    result["canary"] = None
    if canary and result["status"] in ("ok", "failed"):
        cres = cfut.result()
        cfuncs = func_results(cres)
        # every contracted function and every canary_* must FAIL
        must_fail = [f["item"] for f in u.functions if f.get("kind") == "fn" and f.get("has_contract")]
        must_fail_names = set(x.split("::")[-1] for x in must_fail)
        bad = []
        n_checked = 0
        cfail, cothers = classify(cres, clinemap)
        # a canary that runs into its (small) resource limit is not provable either: counts as rejected
        gaveup = [o for o in cothers if o.get("why") == "resource limit" and str(o.get("site_item") or "").startswith("canary:")]
        cothers = [o for o in cothers if o not in gaveup]
        cfail = cfail + gaveup
        if cothers or cres["json"] is None:
            result["status"] = "undecided"
            result["why"] = "canary file did not compile: " + (cothers[0]["message"][:200] if cothers else cres["stderr"][-300:])
        failed_keys = set(f["site_item"] for f in cfail) | set(f["clause_item"] for f in cfail)
        for f in u.functions:
            if f.get("kind") == "fn" and f.get("has_contract") and not f.get("no_canary"):
                n_checked += 1
                if "canary:" + f["item"] not in failed_keys:
                    bad.append(f["item"])
        for ctext_, meta in u.chunks:
            if meta["kind"] == "canary":
                n_checked += 1
                if meta["key"] not in failed_keys:
                    bad.append(meta["key"])
        result["canary"] = {"checked": n_checked, "vacuous": bad, "wall": cres["wall"], "path": cpath}
        if bad and result["status"] == "ok":
            result["status"] = "undecided"
            result["why"] = "vacuity guard: contract(s) with `ensures false` still verify (contradictory precondition or non-returning body): %s" % bad
    return result
