"""Minimal Rust-aware lexer and item locator used by the extractor.

Nothing here understands Rust semantics: it skips comments / strings / chars /
lifetimes correctly so that brace matching and keyword searches are reliable,
and it can find items by their header text.  Everything the extractor cannot
locate raises LostAnchor (=> the check exits 2, UNDECIDED, never a violation).
"""
import re


class LostAnchor(Exception):
    pass


class Unsupported(Exception):
    pass


IDENT_START = set("abcdefghijklmnopqrstuvwxyzABCDEFGHIJKLMNOPQRSTUVWXYZ_")
IDENT_CONT = IDENT_START | set("0123456789")


class Tok:
    __slots__ = ("kind", "text", "start", "end")

    def __init__(self, kind, text, start, end):
        self.kind, self.text, self.start, self.end = kind, text, start, end

    def __repr__(self):
        return "Tok(%s,%r,%d)" % (self.kind, self.text, self.start)


def lex(src):
    """Return list of Tok. kinds: ws, comment, str, char, lifetime, ident, num, punct."""
    toks = []
    i, n = 0, len(src)
    while i < n:
        c = src[i]
        if c.isspace():
            j = i + 1
            while j < n and src[j].isspace():
                j += 1
            toks.append(Tok("ws", src[i:j], i, j))
            i = j
        elif src.startswith("//", i):
            j = src.find("\n", i)
            if j < 0:
                j = n
            toks.append(Tok("comment", src[i:j], i, j))
            i = j
        elif src.startswith("/*", i):
            depth, j = 1, i + 2
            while j < n and depth:
                if src.startswith("/*", j):
                    depth += 1
                    j += 2
                elif src.startswith("*/", j):
                    depth -= 1
                    j += 2
                else:
                    j += 1
            toks.append(Tok("comment", src[i:j], i, j))
            i = j
        elif c == '"' or (c in "br" and re.match(r'(b?r#*"|b")', src[i:i + 12])):
            m = re.match(r'(b?)(r(#*))?"', src[i:i + 12])
            if m.group(2):  # raw string
                hashes = m.group(3)
                endpat = '"' + hashes
                j = src.find(endpat, i + m.end())
                if j < 0:
                    raise Unsupported("unterminated raw string")
                j += len(endpat)
            else:
                j = i + m.end()
                while j < n and src[j] != '"':
                    if src[j] == "\\":
                        j += 1
                    j += 1
                j += 1
            toks.append(Tok("str", src[i:j], i, j))
            i = j
        elif c == "'" or (c == "b" and src.startswith("b'", i)):
            k = i + (2 if c == "b" else 1)
            # char literal or lifetime?
            m = re.match(r"(\\(x[0-9a-fA-F]{2}|u\{[0-9a-fA-F_]+\}|.)|[^\\'])'", src[k:k + 14], re.S)
            if m:
                j = k + m.end()
                toks.append(Tok("char", src[i:j], i, j))
                i = j
            else:
                j = k
                while j < n and src[j] in IDENT_CONT:
                    j += 1
                toks.append(Tok("lifetime", src[i:j], i, j))
                i = j
        elif c in IDENT_START:
            j = i + 1
            while j < n and src[j] in IDENT_CONT:
                j += 1
            toks.append(Tok("ident", src[i:j], i, j))
            i = j
        elif c.isdigit():
            j = i + 1
            while j < n and (src[j] in IDENT_CONT or (src[j] == "." and j + 1 < n and src[j + 1].isdigit())):
                j += 1
            toks.append(Tok("num", src[i:j], i, j))
            i = j
        else:
            toks.append(Tok("punct", c, i, i + 1))
            i += 1
    return toks


OPEN = {"(": ")", "[": "]", "{": "}"}
CLOSE = {")": "(", "]": "[", "}": "{"}


def code_toks(toks):
    return [t for t in toks if t.kind not in ("ws", "comment")]


def match_close(toks, idx):
    """toks: list of code tokens; idx points at an opening bracket; return index of the closer."""
    depth = 0
    for k in range(idx, len(toks)):
        t = toks[k]
        if t.kind == "punct":
            if t.text in OPEN:
                depth += 1
            elif t.text in CLOSE:
                depth -= 1
                if depth == 0:
                    return k
    raise Unsupported("unbalanced brackets")


def norm_ws(s):
    return re.sub(r"\s+", " ", s).strip()


def _header_text(src, toks, a, b):
    return norm_ws(src[toks[a].start:toks[b].start])


def attrs_start(src, toks_all, code_idx_tok):
    """Given the first code token of an item, extend backwards over attributes and doc comments.
    Returns the source offset where the item (with attributes) starts."""
    # operate on offsets: walk back over whitespace / comments / #[...] groups
    pos = code_idx_tok.start
    while True:
        m = re.search(r"(?:(?:#\[[^\n]*\]|///[^\n]*|//![^\n]*)\s*)$", src[:pos])
        if not m:
            # multi-line attribute?  #[ ... ] possibly spanning lines
            m2 = re.search(r"#\[(?:[^\[\]]|\[[^\[\]]*\])*\]\s*$", src[:pos], re.S)
            if not m2:
                return pos
            pos = m2.start()
            continue
        pos = m.start()


class Item:
    """A located item: text span in a file."""

    def __init__(self, path, src, start, end, header, body_open=None):
        self.path, self.src, self.start, self.end = path, src, start, end
        self.header = header
        self.body_open = body_open  # offset of the '{' opening the body (or None)

    @property
    def text(self):
        return self.src[self.start:self.end]

    @property
    def line(self):
        return self.src.count("\n", 0, self.start) + 1


def find_blocks(path, src, kinds=("impl", "trait", "mod")):
    """Yield (header_text, Item) for every impl / trait / mod block in src (all nesting levels
    of mod; impl/trait bodies are not descended into)."""
    toks = code_toks(lex(src))
    out = []

    def scan(lo, hi, deep=False):
        k = lo
        while k < hi:
            t = toks[k]
            if t.kind == "ident" and t.text == "macro_rules" and k + 3 < hi and toks[k + 1].text == "!":
                # items defined inside a macro_rules! body (e.g. `trait Iden` in iden_trait!): descend
                j = k + 2
                while j < hi and not (toks[j].kind == "punct" and toks[j].text in OPEN):
                    j += 1
                c = match_close(toks, j)
                scan(j + 1, c, deep=True)
                k = c + 1
                continue
            if t.kind == "punct" and t.text in OPEN:
                if deep:
                    k += 1
                    continue
                k = match_close(toks, k) + 1
                continue
            if t.kind == "ident" and t.text in ("impl", "trait", "mod") and _is_item_start(toks, k):
                # find body '{' or ';'
                j = k + 1
                angle = 0
                while j < hi:
                    tj = toks[j]
                    if tj.kind == "punct":
                        if tj.text == "<":
                            angle += 1
                        elif tj.text == ">" and toks[j - 1].text != "-":
                            angle -= 1
                        elif tj.text == ";" and angle <= 0:
                            break
                        elif tj.text == "{" and angle <= 0:
                            break
                        elif tj.text in "([":
                            j = match_close(toks, j)
                    j += 1
                if j >= hi or toks[j].text == ";":
                    k = j + 1
                    continue
                close = match_close(toks, j)
                header = _header_text(src, toks, k, j)
                # include visibility / unsafe prefix
                s = k
                while s > lo and toks[s - 1].kind == "ident" and toks[s - 1].text in ("pub", "unsafe", "default"):
                    s -= 1
                if s > lo and toks[s - 1].text == ")" and s >= 3:  # pub(crate)
                    o = s - 1
                    while o > lo and toks[o].text != "(":
                        o -= 1
                    if o > lo and toks[o - 1].text == "pub":
                        s = o - 1
                start = attrs_start(src, None, toks[s])
                it = Item(path, src, start, toks[close].end, header, toks[j].start)
                if t.text in kinds:
                    out.append((header, it))
                if t.text == "mod":
                    scan(j + 1, close)
                k = close + 1
                continue
            k += 1

    scan(0, len(toks))
    return out


def _is_item_start(toks, k):
    # `impl` used as `impl Trait` in types is preceded by ':' '->' '(' ',' '<' '&' '=' etc.
    if toks[k].text != "impl":
        return True
    if k == 0:
        return True
    p = toks[k - 1]
    if p.kind == "punct" and p.text in ":>(,<&=+|":
        return False
    if p.kind == "ident" and p.text in ("dyn", "mut"):
        return False
    return True


def find_block(path, src, header):
    want = norm_ws(header)
    hits = [it for h, it in find_blocks(path, src) if h == want]
    if not hits and want.startswith("trait "):
        # `trait X: Super + ..` / `trait X<T>` - match on the trait name
        hits = [it for h, it in find_blocks(path, src) if re.match(re.escape(want) + r"\s*[:<]", h) or re.match(re.escape(want) + r"\s+where\b", h)]
    if not hits:
        raise LostAnchor("%s: block `%s` not found" % (path, want))
    return hits


def find_type(path, src, kind, name):
    """struct / enum / type / const item named `name` (top level or inside mod)."""
    toks = code_toks(lex(src))
    for k, t in enumerate(toks):
        if t.kind == "ident" and t.text == kind and k + 1 < len(toks) and toks[k + 1].text == name:
            # must be at item position: previous code token is one of ; } ] pub ) or start
            j = k + 2
            while j < len(toks) and not (toks[j].kind == "punct" and toks[j].text in "{;("):
                if toks[j].text == "<":
                    pass
                j += 1
            if j >= len(toks):
                continue
            if toks[j].text == "{":
                close = match_close(toks, j)
                end = toks[close].end
            elif toks[j].text == "(":
                close = match_close(toks, j)
                e = close + 1
                while toks[e].text != ";":
                    e += 1
                end = toks[e].end
            else:
                end = toks[j].end
            s = k
            while s > 0 and (toks[s - 1].kind == "ident" and toks[s - 1].text in ("pub", "crate") or toks[s - 1].text in "()"):
                s -= 1
            start = attrs_start(src, None, toks[s])
            return Item(path, src, start, end, "%s %s" % (kind, name), toks[j].start if toks[j].text == "{" else None)
    raise LostAnchor("%s: `%s %s` not found" % (path, kind, name))


def find_fn(path, src, block, name):
    """fn `name` directly inside `block` (an Item for an impl/trait), or at file level if block is None."""
    if block is None:
        lo_off, hi_off = 0, len(src)
    else:
        lo_off, hi_off = block.body_open + 1, block.end - 1
    sub = src[lo_off:hi_off]
    toks = code_toks(lex(sub))
    k = 0
    while k < len(toks):
        t = toks[k]
        if t.kind == "punct" and t.text == "{":
            # skip nested bodies
            k = match_close(toks, k) + 1
            continue
        if t.kind == "ident" and t.text == "fn" and k + 1 < len(toks) and toks[k + 1].text == name:
            j = k + 2
            while j < len(toks):
                tj = toks[j]
                if tj.kind == "punct" and tj.text in "([":
                    j = match_close(toks, j) + 1
                    continue
                if tj.kind == "punct" and tj.text in "{;":
                    break
                j += 1
            s = k
            while s > 0 and ((toks[s - 1].kind == "ident" and toks[s - 1].text in ("pub", "crate", "const", "unsafe", "async", "default", "super")) or toks[s - 1].text in "()"):
                s -= 1
            start = attrs_start(sub, None, toks[s])
            if toks[j].text == ";":
                return Item(path, src, lo_off + start, lo_off + toks[j].end, "fn " + name, None)
            close = match_close(toks, j)
            return Item(path, src, lo_off + start, lo_off + toks[close].end, "fn " + name, lo_off + toks[j].start)
        k += 1
    raise LostAnchor("%s: fn `%s` not found in `%s`" % (path, name, block.header if block else "<file>"))
