#!/usr/bin/env python3
"""Regenerates MANIFEST.json from vlib/props.py (claimed checks) and the not-applicable table."""
import json, os, sys
sys.path.insert(0, os.path.dirname(os.path.abspath(__file__)))
from vlib.props import PROPS, NOT_APPLICABLE, LEVEL_TEXT

ids = ["C%02d" % i for i in range(1, 21)]
checks = []
for pid in ids:
    if pid not in PROPS:
        continue
    P = PROPS[pid]
    checks.append({
        "property_id": pid,
        "quick_cmd": "./check %s --tier quick" % pid,
        "thorough_cmd": "./check %s --tier thorough" % pid,
        "evidence_file": "/verif/evidence/%s.json" % pid,
        "replay_cmd_template": "./check %s --replay {path}" % pid,
        "engine": P.get("engine", "verus"),
        "level_claimed": {"category": "proof", "text": LEVEL_TEXT[pid], "design_ref": P.get("design_ref", "DESIGN.md section 4")},
        "level_note": " | ".join(P.get("trusted_base", []) + ["ASSUMED: " + a for a in P.get("assumptions", [])]),
        "technique": P["technique"],
    })
na = [{"property_id": pid, "reason": NOT_APPLICABLE[pid]} for pid in ids if pid not in PROPS]
m = {
    "version": 1,
    "setup_cmd": "cd /verif && ./setup.sh",
    "hooks": {
        "guard": "seaql_sea_query_verif",
        "enable": "no source hooks are needed: Verus units read /repo's source text on every run; Kani / rustc / replay crates use the public API through a path dependency on /repo",
        "baseline_off_cmd": "cd /repo && cargo test --workspace --no-fail-fast --offline",
        "source_commits": [],
        "add_only": True,
    },
    "engines": [
        {"name": "verus", "path": "/verif/vlib + /verif/units", "serves_properties": [p for p in ids if p in PROPS and PROPS[p].get("kind", "verus") == "verus"],
         "kind_free_text": "contract-based deductive verification: real functions extracted mechanically from /repo on every run, contracts spliced, discharged by Verus/Z3"},
        {"name": "vreplay", "path": "/verif/replay", "serves_properties": [p for p in ids if p in PROPS and PROPS[p].get("search")],
         "kind_free_text": "native witness search on the real crate, run only after an obligation failed, plus validation of trusted std facts; decides nothing"},
        {"name": "kani", "path": "/verif/kani + /verif/vlib/kani.py", "serves_properties": [p for p in ids if p in PROPS and PROPS[p].get("kind") == "kani"],
         "kind_free_text": "Kani / CBMC harnesses on the real compiled crate (loop-free, full-domain symbolic inputs = complete; heap payloads bounded and labelled)"},
        {"name": "rustc", "path": "/verif/vlib/rustc.py", "serves_properties": [p for p in ids if p in PROPS and PROPS[p].get("kind") == "rustc"],
         "kind_free_text": "auto-trait obligations discharged by rustc's trait solver on a crate generated from /repo's public types on every run"},
        {"name": "sqlite-engine", "path": "/verif/vlib/engine.py + vreplay engine-cases", "serves_properties": ["C07", "C09", "C13"],
         "kind_free_text": "bounded stand-in only: the real renderings are executed on a real SQLite engine (python's sqlite3) and rows / catalogue compared; labelled bounded, never counted as proved"},
    ],
    "checks": checks,
    "not_applicable": na,
    "notes": "exit 2 = UNDECIDED (lost anchor / unsupported construct / tool failure), never an alarm. See DESIGN.md.",
}
json.dump(m, open(os.path.join(os.path.dirname(os.path.abspath(__file__)), "MANIFEST.json"), "w"), indent=1)
print("claimed:", [c["property_id"] for c in checks]); print("n/a:", [x["property_id"] for x in na])
