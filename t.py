import sys
from vlib import run
r = run.run_unit(sys.argv[1], canary=(len(sys.argv)>2 and sys.argv[2]=="canary"))
print(r["status"], r.get("why"), r["verified"], r["errors"], r["wall"], r.get("canary"))
for f in r["failures"][:12]: print("FAIL", f["message"], f["site_item"], "|", f["clause"], "\n", f["rendered"][:500])
for f in r["others"][:6]: print("OTHER", f["message"], f["site_item"], "\n", f["rendered"][:700])
