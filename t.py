import sys
from vlib import run
r = run.run_unit(sys.argv[1], canary=("canary" in sys.argv[2:]), variant=([a[8:] for a in sys.argv[2:] if a.startswith("variant=")] or [None])[0])
print(r["status"], r.get("why"), r["verified"], r["errors"], r["wall"], r.get("canary"), "STUBBED:", r.get("stubbed"))
for f in r["failures"][:12]: print("FAIL", f["message"], f["site_item"], "|", f["clause"], "\n", f["rendered"][:500])
for f in r["others"][:6]: print("OTHER", f["message"], f["site_item"], "\n", f["rendered"][:700])
