#!/usr/bin/env python3
"""tools/mutsweep.py PROP FILE.json : my own mutation sweep.  FILE.json = [{"name":.., "file": "src/..", "old": "..", "new": ".."}, ..]:
each edit is applied to /repo's working tree (must be clean), `cargo check` must pass, ./check PROP is run, the edit is undone."""
import json, subprocess, sys, os, shutil, tempfile, time
prop, spec = sys.argv[1], json.load(open(sys.argv[2]))
only = sys.argv[3:] 
st = subprocess.run(["git", "-C", "/repo", "status", "--porcelain", "--untracked-files=no"], capture_output=True, text=True).stdout.strip()
if st:
    print("refusing: /repo has local changes"); sys.exit(2)
bak = tempfile.mkdtemp(prefix="evid-bak-")
shutil.copytree("/verif/evidence", bak + "/evidence")
res = []
try:
    for m in spec:
        if only and m["name"] not in only:
            continue
        p = os.path.join("/repo", m["file"])
        s = open(p).read()
        if s.count(m["old"]) != 1:
            print("== %s: anchor found %d times - skipped" % (m["name"], s.count(m["old"]))); continue
        open(p, "w").write(s.replace(m["old"], m["new"]))
        try:
            c = subprocess.run(["cargo", "check", "--offline", "-q"] + m.get("cargo", []), cwd="/repo", capture_output=True, text=True)
            if c.returncode != 0:
                print("== %s: does not compile: %s" % (m["name"], c.stderr[-300:])); continue
            t0 = time.time()
            o = subprocess.run(["./check", m.get("prop", prop)], cwd="/verif", capture_output=True, text=True)
            lines = [l for l in o.stdout.splitlines() if l.startswith(("VIOLATION", "OBLIGATION", "UNDECIDED", "  witness", "WITNESS", "BOUNDED", "KNOWN"))]
            print("== %s exit=%d (%.0fs)" % (m["name"], o.returncode, time.time() - t0))
            for l in lines[:5]:
                print("   " + l[:330])
            res.append((m["name"], o.returncode))
        finally:
            subprocess.run(["git", "-C", "/repo", "checkout", "--", "."])
finally:
    shutil.rmtree("/verif/evidence"); shutil.copytree(bak + "/evidence", "/verif/evidence"); shutil.rmtree(bak)
print("SUMMARY", res)
