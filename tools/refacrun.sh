#!/bin/bash
# tools/refacrun.sh <dir with patch.diff> PROP... : apply a behaviour-preserving refactoring to /repo, run checks, revert.  exit code 1 of a check = false alarm
d=$1; shift
cd /verif
git -C /repo apply $d/patch.diff || { echo "$d: patch does not apply"; exit 2; }
cp -r evidence /tmp/evid-bak-r
line="$(basename $(dirname $d))/$(basename $d):"
for p in "$@"; do
  ./check $p > /tmp/refac_$p.log 2>&1; rc=$?
  line="$line $p=$rc"
  [ $rc = 1 ] && grep -E "OBLIGATION|VIOLATION|witness" /tmp/refac_$p.log | head -4 | cut -c1-300
  [ $rc = 2 ] && grep -E "UNDECIDED" /tmp/refac_$p.log | head -2 | cut -c1-260
done
git -C /repo checkout -- .
rm -rf evidence; mv /tmp/evid-bak-r evidence
echo "$line"
