#!/usr/bin/env python3
"""tools/seedtable.py : regenerate the table of DESIGN.md section 12 from seeded/*/meta.json (fields short, caught_by)."""
import json, os, re
root = os.path.dirname(os.path.dirname(os.path.abspath(__file__)))
rows = []
for d in sorted(os.listdir(os.path.join(root, "seeded"))):
    m = json.load(open(os.path.join(root, "seeded", d, "meta.json")))
    rows.append("| %s | %s | %s |" % (d, m.get("short", "?").replace("|", "\\|"), re.sub(r"\s+", " ", m.get("caught_by", "")).replace("|", "/")))
p = os.path.join(root, "DESIGN.md")
s = open(p).read()
a = s.index("| seed | change | caught by |\n|---|---|---|\n", s.index("## 12."))
b = s.index("\nMisses and what was strengthened (round 3)")
s = s[:a] + "| seed | change | caught by |\n|---|---|---|\n" + "\n".join(rows) + "\n" + s[b:]
open(p, "w").write(s)
print(len(rows), "rows")
