#!/bin/bash
# tools/seedall.sh : run every stored seeded change against its target check (regression of the machinery itself).
# Prints one line per seed; exit 1 if any seed is NOT caught (check exit != 1).
cd /verif
bad=0
for d in seeded/*/; do
  n=$(basename $d); P=${n%%-*}
  out=$(python3 tools/seedrun.py /verif/$d $P 2>&1)
  rc=$(echo "$out" | grep -o "\"$P\": [0-9]*" | grep -o "[0-9]*$")
  how=$(echo "$out" | grep -E "OBLIGATION FAILED|BOUNDED-SEARCH|WITNESS|UNDECIDED|harness" | head -1 | cut -c1-160)
  echo "$n exit=$rc $how"
  [ "$rc" = "1" ] || bad=1
done
exit $bad
