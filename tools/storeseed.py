#!/usr/bin/env python3
"""tools/storeseed.py <WID> <k> <PROP> <round> <first_run> <strengthened> <now> : keep a confirmed sub-agent seed as seeded/<PROP>-<next>/"""
import json, os, re, shutil, sys
wid, k, prop, rnd, first, strengthened, now = sys.argv[1:8]
src = "/tmp/seed-%s/%s" % (wid, k)
ns = [int(m.group(1)) for d in os.listdir("/verif/seeded") for m in [re.match(prop + r"-(\d+)$", d)] if m]
dst = "/verif/seeded/%s-%d" % (prop, max(ns + [0]) + 1)
os.makedirs(dst)
for f in os.listdir(src):
    if f in ("patch.diff", "meta.json") or f.startswith("demo"):
        shutil.copy(os.path.join(src, f), dst)
m = json.load(open(dst + "/meta.json"))
m.update({"property": prop, "round": rnd, "asked_for": "as round 14-16: the property text, a scratch worktree, the list of changes already known for the property (find different ones)",
          "my_confirmation": open(src + "/confirm.txt").read().strip(), "first_run_of_target_check": first, "strengthened": strengthened, "now": now})
json.dump(m, open(dst + "/meta.json", "w"), indent=1)
print(dst)
