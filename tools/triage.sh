#!/bin/bash
# tools/triage.sh <WID> <k> [feature] [PROP] : confirm a sub-agent's seed in its scratch worktree /tmp/wt-<WID> (seed files in /tmp/seed-<WID>/<k>),
# then run the target check (PROP, default WID) against it
W=$1; K=$2; FEAT=$3; P=${4:-$1}
S=/tmp/seed-$W/$K
[ -f $S/patch.diff ] || { echo "$W-$K: no patch"; exit 0; }
bash /verif/tools/confirm_seed.sh $W $K $FEAT > /dev/null 2>&1
echo "== $W-$K confirm: $(cat $S/confirm.txt)"
python3 /verif/tools/seedrun.py $S $P 2>&1 | grep -v "^WARNING" | cut -c1-330
