#!/bin/bash
# tools/triage.sh <PROP> <k> [feature] [extra props...] : confirm a sub-agent's seed in its scratch worktree, then run the target check(s) against it
P=$1; K=$2; FEAT=$3; shift 3
S=/tmp/seed-$P/$K
[ -f $S/patch.diff ] || { echo "$P-$K: no patch"; exit 0; }
bash /verif/tools/confirm_seed.sh $P $K $FEAT > /dev/null 2>&1
echo "== $P-$K confirm: $(cat $S/confirm.txt)"
python3 /verif/tools/seedrun.py $S $P "$@" 2>&1 | grep -v "^WARNING" | cut -c1-330
