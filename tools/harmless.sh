#!/bin/bash
# tools/harmless.sh : apply every behaviour-preserving edit under /verif/harmless/*/patch.diff to /repo, run the Verus-based checks,
# revert.  A check may answer 0 (still proved) or 2 (UNDECIDED: the edit left the annotations' reach) - exit 1 would be a FALSE ALARM.
cd /verif
bad=0
for d in harmless/*/; do
  n=$(basename $d)
  git -C /repo apply /verif/$d/patch.diff || { echo "$n: patch does not apply"; bad=1; continue; }
  cp -r evidence /tmp/evid-bak-h
  line="$n:"
  props=${HARMLESS_PROPS:-C01 C02 C03 C04 C05 C06 C08 C10 C11 C15 C16 C17}
  [ -f $d/props.txt ] && [ -z "$HARMLESS_PROPS" ] && props=$(cat $d/props.txt)
  for p in $props; do
    ./check $p > /tmp/harmless_$p.log 2>&1; rc=$?
    line="$line $p=$rc"
    [ $rc = 1 ] && { bad=1; grep -E "OBLIGATION|VIOLATION|witness" /tmp/harmless_$p.log | head -3; }
  done
  git -C /repo checkout -- .
  rm -rf evidence; mv /tmp/evid-bak-h evidence
  echo "$line"
done
exit $bad
