#!/bin/bash
# tools/confirm_seed.sh <PROP> <k> : confirm a sub-agent's seeded change in its scratch worktree /tmp/wt-<PROP>:
#   existing suite passes with the change; demo fails with it and passes without it.  Writes /tmp/seed-<PROP>/<k>/confirm.txt
P=$1; K=$2; FEAT=${3:+--features $3}; W=/tmp/wt-$P; S=/tmp/seed-$P/$K; OUT=$S/confirm.txt
export CARGO_TARGET_DIR=$W/target CARGO_NET_OFFLINE=true
cd $W || exit 2
git checkout -q -- . ; git clean -fdq -e target
git apply $S/patch.diff || { echo "patch does not apply" > $OUT; exit 2; }
suite=$(cargo test --workspace --no-fail-fast --offline 2>&1 | grep -E "^test result" | awk '{p+=$4; f+=$6} END {print p" passed "f" failed"}')
if grep -qE "fn main" $S/demo.rs; then KIND=example; mkdir -p examples; cp $S/demo.rs examples/seed_demo.rs; else KIND=test; cp $S/demo.rs tests/seed_demo.rs; fi
cargo test --offline $FEAT --$KIND seed_demo > /tmp/demo_with_$P$K.txt 2>&1; with=$?
grep -qE "fn main" examples/seed_demo.rs && { cargo run --offline $FEAT --example seed_demo >> /tmp/demo_with_$P$K.txt 2>&1; withrun=$?; } || withrun=na
git checkout -q -- . ; if [ $KIND = test ]; then cp $S/demo.rs tests/seed_demo.rs; fi
cargo test --offline $FEAT --$KIND seed_demo > /tmp/demo_without_$P$K.txt 2>&1; without=$?
grep -qE "fn main" examples/seed_demo.rs && { cargo run --offline $FEAT --example seed_demo >> /tmp/demo_without_$P$K.txt 2>&1; withoutrun=$?; } || withoutrun=na
rm -f examples/seed_demo.rs tests/seed_demo.rs; git checkout -q -- . ; git clean -fdq -e target
echo "suite_with_change: $suite | demo_with_change: test_exit=$with run_exit=$withrun | demo_without_change: test_exit=$without run_exit=$withoutrun" | tee $OUT
