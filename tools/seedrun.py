#!/usr/bin/env python3
"""tools/seedrun.py <seed dir with patch.diff> [PROP ...] : apply a seeded change to /repo, run checks, undo it."""
import json, os, subprocess, sys, time
seed = os.path.abspath(sys.argv[1])
props = sys.argv[2:] or [c["property_id"] for c in json.load(open("/verif/MANIFEST.json"))["checks"]]
patch = os.path.join(seed, "patch.diff")
st = subprocess.run(["git", "-C", "/repo", "status", "--porcelain", "--untracked-files=no"], capture_output=True, text=True).stdout.strip()
if st:
    print("refusing: /repo has local changes:\n" + st); sys.exit(2)
r = subprocess.run(["git", "-C", "/repo", "apply", patch], capture_output=True, text=True)
if r.returncode != 0:
    print("patch does not apply:", r.stderr[:500]); sys.exit(2)
res = {}
import shutil, tempfile
bak = tempfile.mkdtemp(prefix="evid-bak-")
shutil.copytree("/verif/evidence", bak + "/evidence")
try:
    for p in props:
        t0 = time.time()
        o = subprocess.run(["./check", p], cwd="/verif", capture_output=True, text=True)
        lines = [l for l in o.stdout.splitlines() if l.startswith(("VIOLATION", "OBLIGATION", "UNDECIDED", "OK", "  witness", "WITNESS", "BOUNDED"))]
        res[p] = o.returncode
        print("== %s exit=%d (%.0fs)" % (p, o.returncode, time.time() - t0))
        for l in lines[:8]:
            print("   " + l[:400])
finally:
    subprocess.run(["git", "-C", "/repo", "checkout", "--", "."])
    # evidence written while a seeded change was applied must not survive (it would describe another tree)
    shutil.rmtree("/verif/evidence"); shutil.copytree(bak + "/evidence", "/verif/evidence"); shutil.rmtree(bak)
print("SUMMARY", seed, json.dumps(res))
