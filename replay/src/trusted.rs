//! Native validation of the cheap trusted std facts the Verus shims assume (DESIGN 3.5).
pub fn run() {
    let mut bad = vec![];
    // vchar: on ASCII, is_alphabetic is exactly A-Z | a-z; is_ascii_digit is '0'..='9'
    for u in 0u32..128 {
        let c = char::from_u32(u).unwrap();
        let want = c.is_ascii_uppercase() || c.is_ascii_lowercase();
        if c.is_alphabetic() != (('A' <= c && c <= 'Z') || ('a' <= c && c <= 'z')) || want != c.is_alphabetic() {
            bad.push(format!("is_alphabetic({u:#x})"));
        }
    }
    for u in 0u32..128 {
        let c = char::from_u32(u).unwrap();
        if c.is_whitespace() != (c == ' ' || ('\x09' <= c && c <= '\x0d')) { bad.push(format!("is_whitespace({u:#x})")); }
        if c.is_numeric() != ('0' <= c && c <= '9') { bad.push(format!("is_numeric({u:#x})")); }
        if c.is_alphanumeric() != (c.is_alphabetic() || c.is_numeric()) { bad.push(format!("is_alphanumeric({u:#x})")); }
        if c.is_ascii_whitespace() != (c == ' ' || c == '\x09' || c == '\x0a' || c == '\x0c' || c == '\x0d') { bad.push(format!("is_ascii_whitespace({u:#x})")); }
    }
    for c in (0u32..0x11_0000).filter_map(char::from_u32) { if c.is_alphanumeric() != (c.is_alphabetic() || c.is_numeric()) { bad.push(format!("is_alphanumeric({:#x})", c as u32)); break; } }
    for u in (0u32..0x11_0000).filter_map(char::from_u32) {
        if u.is_ascii_digit() != ('0' <= u && u <= '9') { bad.push(format!("is_ascii_digit({:#x})", u as u32)); }
    }
    // vfmt: Display of char / &str / String is the text itself, segments in order
    for s in ["", "a", "é\u{1F600}x", "'\\\"`"] {
        if format!("{}", s) != s || format!("<{}>{}", s, s) != format!("<{s}>") + s { bad.push(format!("Display str {s:?}")); }
        for c in s.chars() { if format!("{c}") != c.to_string() || format!("{c}").chars().collect::<Vec<_>>() != vec![c] { bad.push(format!("Display char {c:?}")); } }
        let v: Vec<char> = s.chars().collect();
        if v.iter().collect::<String>() != s { bad.push(format!("chars/collect {s:?}")); }
    }
    // vfmt {:02X}
    for b in 0u16..256 {
        let b = b as u8;
        let h: Vec<char> = format!("{:02X}", b).chars().collect();
        let d = |n: u8| if n < 10 { (b'0' + n) as char } else { (b'A' + n - 10) as char };
        if h != vec![d(b / 16), d(b % 16)] { bad.push(format!("{{:02X}} of {b}")); }
    }
    // vstr: replace(char, &str) = per-char map; replace("''", "'") leftmost non-overlapping; find(char); concat
    let alpha = ['a', '\'', '\\', 'é'];
    crate::util::strings(&alpha, 5, |s| {
        let want: String = s.chars().map(|c| if c == '\'' { "''".to_string() } else { c.to_string() }).collect();
        if s.replace('\'', "''") != want { bad.push(format!("replace(char) {s:?}")); }
        let cs: Vec<char> = s.chars().collect();
        let (mut i, mut o) = (0, String::new());
        while i < cs.len() { if i + 1 < cs.len() && cs[i] == '\'' && cs[i + 1] == '\'' { o.push('\''); i += 2; } else { o.push(cs[i]); i += 1; } }
        if s.replace("''", "'") != o { bad.push(format!("replace(str) {s:?}")); }
        if s.find('\\').is_some() != s.chars().any(|c| c == '\\') { bad.push(format!("find {s:?}")); }
        if "E'".to_owned() + &s.to_string() + "'" != format!("E'{s}'") { bad.push(format!("concat {s:?}")); }
        false
    });
    // vchar: `c as u8` keeps the low 8 bits; from_utf8 of one byte is that ASCII char, and fails for >= 0x80
    for c in ['a', 'é', '\u{141}', '\u{1F600}'] { if (c as u8) as u32 != (c as u32) % 256 { bad.push(format!("as u8 {c:?}")); } }
    for b in 0u16..256 { let b = b as u8; match std::str::from_utf8(&[b]) { Ok(s) => if b >= 0x80 || s.chars().collect::<Vec<_>>() != vec![b as char] { bad.push(format!("from_utf8 {b}")) }, Err(_) => if b < 0x80 { bad.push(format!("from_utf8 {b}")) } } }
    if bad.is_empty() { println!("TRUSTED-OK"); } else { println!("TRUSTED-MISMATCH {}", bad.join(", ")); std::process::exit(1); }
}
