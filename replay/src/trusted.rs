//! Native validation of the cheap trusted std facts the Verus shims assume (DESIGN 3.5).
pub fn run() {
    let mut bad = vec![];
    // vchar: on ASCII, is_alphabetic is exactly A-Z | a-z; is_ascii_digit is '0'..='9'
    for u in 0u32..128 {
        let c = char::from_u32(u).unwrap();
        let want = c.is_ascii_uppercase() || c.is_ascii_lowercase();
        if c.is_alphabetic() != (('A' <= c && c <= 'Z') || ('a' <= c && c <= 'z')) || want != c.is_alphabetic() {
            bad.push(format!("is_alphabetic({u:#x})"));
        }
    }
    for u in (0u32..0x11_0000).filter_map(char::from_u32) {
        if u.is_ascii_digit() != ('0' <= u && u <= '9') { bad.push(format!("is_ascii_digit({:#x})", u as u32)); }
    }
    // vfmt: Display of char / &str / String is the text itself, segments in order
    for s in ["", "a", "é\u{1F600}x", "'\\\"`"] {
        if format!("{}", s) != s || format!("<{}>{}", s, s) != format!("<{s}>") + s { bad.push(format!("Display str {s:?}")); }
        for c in s.chars() { if format!("{c}") != c.to_string() || format!("{c}").chars().collect::<Vec<_>>() != vec![c] { bad.push(format!("Display char {c:?}")); } }
        let v: Vec<char> = s.chars().collect();
        if v.iter().collect::<String>() != s { bad.push(format!("chars/collect {s:?}")); }
    }
    if bad.is_empty() { println!("TRUSTED-OK"); } else { println!("TRUSTED-MISMATCH {}", bad.join(", ")); std::process::exit(1); }
}
