//! C09 bounded stand-in: the PORTABLE statements of the C07 corpus (features common to MySQL, Postgres and SQLite) are rendered by the
//! three real backends; the MySQL and the Postgres rendering are translated into SQLite's spelling TOKEN BY TOKEN - and nothing but
//! spelling: identifier quotes, string-literal syntax (decoded with that dialect's lexer, re-encoded for SQLite), placeholder style
//! (`$n` -> `?n`), the parentheses around set-operation operands, and the documented function-name substitutions (GREATEST / LEAST ->
//! MAX / MIN, CHAR_LENGTH -> LENGTH, RAND -> RANDOM) - and executed on a real SQLite engine next to the SQLite rendering: result rows and
//! table contents must be identical (vlib/engine.py).  MySQL's emulation of NULLS FIRST / LAST (`x IS NULL ASC|DESC, x <dir>`) is left
//! as rendered: SQLite orders NULLs like MySQL does (smaller than every value), so the emulation runs against the native form.
use crate::c07::{self, Pair};
use crate::lexers;
use crate::util::esc;

#[derive(Clone, Copy, PartialEq)]
pub enum From { My, Pg }

fn sqlite_str(v: &str) -> String { format!("'{}'", v.replace('\'', "''")) }
fn sqlite_ident(v: &str) -> String { format!("\"{}\"", v.replace('"', "\"\"")) }

/// spelling-only translation of a MySQL / Postgres rendering into SQLite's syntax
pub fn transliterate(sql: &str, from: From) -> Option<String> {
    let t: Vec<char> = sql.chars().collect();
    let mut toks: Vec<String> = vec![];
    let mut i = 0usize;
    while i < t.len() {
        let c = t[i];
        if c == '`' && from == From::My { let (v, e) = lexers::quoted_ident(&t[i..], '`')?; toks.push(sqlite_ident(&v)); i += e; continue; }
        if c == '"' { let (v, e) = lexers::quoted_ident(&t[i..], '"')?; toks.push(sqlite_ident(&v)); i += e; continue; }
        if c == '\'' && from == From::Pg { if let Some((bytes, e)) = lexers::pg_bytea_lit(&t[i..]) { toks.push(format!("x'{}'", bytes.iter().map(|b| format!("{b:02X}")).collect::<String>())); i += e; continue; } }
        if c == '\'' || (from == From::Pg && c == 'E' && i + 1 < t.len() && t[i + 1] == '\'' && (i == 0 || !t[i - 1].is_alphanumeric())) {
            let (v, e) = if from == From::My { lexers::mysql_string_lit(&t[i..])? } else { lexers::pg_string_lit(&t[i..])? };
            toks.push(sqlite_str(&v)); i += e; continue;
        }
        if c == '$' && from == From::Pg && i + 1 < t.len() && t[i + 1].is_ascii_digit() { let mut j = i + 1; while j < t.len() && t[j].is_ascii_digit() { j += 1; } toks.push(format!("?{}", t[i + 1..j].iter().collect::<String>())); i = j; continue; }
        if c.is_alphanumeric() || c == '_' { let mut j = i; while j < t.len() && (t[j].is_alphanumeric() || t[j] == '_') { j += 1; } toks.push(t[i..j].iter().collect()); i = j; continue; }
        toks.push(c.to_string()); i += 1;
    }
    // documented function-name substitutions (a word directly followed by `(`)
    for k in 0..toks.len() {
        if k + 1 < toks.len() && toks[k + 1] == "(" {
            let r = match toks[k].as_str() { "GREATEST" => Some("MAX"), "LEAST" => Some("MIN"), "CHAR_LENGTH" => Some("LENGTH"), "RAND" => Some("RANDOM"), _ => None };
            if let Some(r) = r { toks[k] = r.to_string(); }
        }
    }
    // set-operation operands: `UNION [ALL] | INTERSECT | EXCEPT ( query )` -> bare operand (SQLite's compound select)
    let mut k = 0;
    while k < toks.len() {
        let is_op = matches!(toks[k].as_str(), "UNION" | "INTERSECT" | "EXCEPT");
        if is_op {
            let mut j = k + 1;
            while j < toks.len() && (toks[j] == " " || toks[j] == "ALL") { j += 1; }
            if j < toks.len() && toks[j] == "(" {
                let (mut depth, mut m) = (0i32, j);
                while m < toks.len() { if toks[m] == "(" { depth += 1; } else if toks[m] == ")" { depth -= 1; if depth == 0 { break; } } m += 1; }
                if m < toks.len() { toks[m] = String::new(); toks[j] = String::new(); }
            }
        }
        k += 1;
    }
    Some(toks.concat())
}

fn pair_json(label: &str, a_sql: &str, params: Option<&str>, b_sql: &str, ordered: bool) -> String {
    let (fx, sn) = c07::fixture_json();
    format!("{{\"property\":\"C09\",\"label\":\"{}\",\"fixture\":[{}],\"a\":{{\"s\":\"{}\",\"params\":{}}},\"b\":{{\"s\":\"{}\"}},\"ordered\":{},\"snaps\":[{}]}}",
            esc(label), fx, esc(a_sql), params.unwrap_or("null"), esc(b_sql), ordered, sn)
}

pub fn cases() -> Vec<String> {
    let mut out = vec![];
    let all: Vec<Pair> = c07::cases();
    for p in all.iter() {
        let Some((my, pg, pg_ph, pg_vals)) = &p.other else { continue };
        let base = p.label.trim_end_matches(" [inline]");
        // b = the SQLite backend's own (inline) rendering of the same statement
        for (name, sql, from, params) in [("mysql", my, From::My, None), ("postgres", pg, From::Pg, None), ("postgres parameterised", pg_ph, From::Pg, Some(pg_vals.as_str()))] {
            match transliterate(sql, from) {
                Some(tr) => out.push(pair_json(&format!("{base} [{name} -> sqlite spelling]  {sql}"), &tr, params, &p.a_sql, p.ordered)),
                None => out.push(pair_json(&format!("{base} [{name}]  {sql}"), "-- the rendering does not lex under its own dialect's rules", None, &p.a_sql, p.ordered)),
            }
        }
    }
    out
}
