//! C08 witness search (bounded): statements built from subsets of clauses, rendered by the MySQL and Postgres backends and
//! compared with the statement text the dialect's grammar requires (ORACLE, hand-written from the MySQL 8.0 / PostgreSQL 16
//! manuals: clause order, the dialect's own form of each clause, nothing from another dialect).  Whitespace runs outside
//! quotes are normalised.  Builder calls are made in an order different from the grammar's.
//!
//! Two renderings are genuine, RECORDED defects (known_findings.json); the oracle knows their deviant text so that they are
//! reported under their own label and cannot hide any other difference in the same statement:
//!   window-spec-without-parentheses : `WINDOW w AS PARTITION BY c`   (every grammar: `WINDOW w AS ( .. )`)
//!   mysql-on-duplicate-key-ignore   : `ON DUPLICATE KEY IGNORE`      (not MySQL syntax)
use crate::util::Witness;
use sea_query::extension::mysql::*;
use sea_query::extension::postgres::*;
use sea_query::*;

fn a(s: &str) -> Alias { Alias::new(s) }

/// collapse runs of spaces outside quoted tokens; trim
pub fn norm(sql: &str) -> String {
    let b: Vec<char> = sql.chars().collect();
    let (mut i, mut out) = (0usize, String::new());
    while i < b.len() {
        let c = b[i];
        if c == '\'' || c == '"' || c == '`' {
            let q = c; out.push(c); i += 1;
            while i < b.len() { out.push(b[i]); if b[i] == '\\' && q == '\'' && i + 1 < b.len() { i += 1; out.push(b[i]); } else if b[i] == q { break; } i += 1; }
            i += 1; continue;
        }
        if c == ' ' && out.ends_with(' ') { i += 1; continue; }
        out.push(c); i += 1;
    }
    out.trim().to_string()
}

/// expected text in both dialects, built piecewise in GRAMMAR order; `dev` = the same with the recorded deviations
#[derive(Default, Clone)]
struct Exp { my: String, pg: String, my_dev: String, pg_dev: String, devs: Vec<&'static str> }
impl Exp {
    fn both(&mut self, my: &str, pg: &str) { self.my += my; self.pg += pg; self.my_dev += my; self.pg_dev += pg; }
    fn q(&mut self, s: &str) { let p = s.replace('`', "\""); self.both(s, &p); }   // same text, dialect's identifier quotes
    fn dev(&mut self, name: &'static str, my: (&str, &str), pg: (&str, &str)) { self.my += my.0; self.my_dev += my.1; self.pg += pg.0; self.pg_dev += pg.1; self.devs.push(name); }
}

fn verdict(label: String, e: &Exp, my: String, pg: String) -> Option<Witness> {
    for (name, got, want, want_dev) in [("mysql", norm(&my), norm(&e.my), norm(&e.my_dev)), ("postgres", norm(&pg), norm(&e.pg), norm(&e.pg_dev))] {
        if got == want { continue; }
        if got == want_dev {
            return Some(Witness { property: "C08", input: label, observed: format!("known-deviation({}) {name}: {got}", e.devs.join(",")), expected: want });
        }
        return Some(Witness { property: "C08", input: label, observed: format!("{name}: {got}"), expected: want });
    }
    None
}

fn cte() -> CommonTableExpression {
    CommonTableExpression::new().query(Query::select().column(a("c")).from(a("v")).to_owned()).table_name(a("cte")).column(a("c")).to_owned()
}
const CTE: &str = "`cte` (`c`) AS (SELECT `c` FROM `v`) ";

fn order_item(s: &mut dyn FnMut(Alias, Order, Option<NullOrdering>), e: &mut Exp, ord: usize) {
    let (kind, nulls) = (ord % 3, ord / 3);
    let o = match kind { 0 => Order::Asc, 1 => Order::Desc, _ => Order::Field(Values(vec![1.into(), 2.into()])) };
    let n = match nulls { 0 => None, 1 => Some(NullOrdering::First), _ => Some(NullOrdering::Last) };
    s(a("c"), o, n);
    let key_my = match kind { 0 => "`c` ASC", 1 => "`c` DESC", _ => "CASE WHEN `c`=1 THEN 0 WHEN `c`=2 THEN 1 ELSE 2 END" };
    let key_pg = key_my.replace('`', "\"");
    // MySQL has no NULLS FIRST / LAST: emulated by an extra leading sort key; Postgres: suffix
    let (pre_my, suf_pg) = match nulls { 0 => ("", ""), 1 => ("`c` IS NULL DESC, ", " NULLS FIRST"), _ => ("`c` IS NULL ASC, ", " NULLS LAST") };
    e.both(&format!("{pre_my}{key_my}"), &format!("{key_pg}{suf_pg}"));
}

const SEL_BITS: u32 = 14;
fn check_select(mask: u32, ord: usize, lock: usize) -> Option<Witness> {
    let bit = |k: u32| mask & (1 << k) != 0;
    let mut s = Query::select();
    let mut e = Exp::default();
    // ---- builder calls, deliberately NOT in grammar order
    if bit(13) {
        match lock { 0 => { s.lock(LockType::Update); } 1 => { s.lock(LockType::Share); } 2 => { s.lock_with_tables_behavior(LockType::Update, [a("t")], LockBehavior::Nowait); } _ => { s.lock_with_behavior(LockType::Update, LockBehavior::SkipLocked); } }
    }
    if bit(11) { s.limit(5); }
    if bit(9) { s.union(UnionType::All, Query::select().column(a("c")).from(a("v")).to_owned()); }
    if bit(7) { s.and_having(Expr::col(a("c")).max().lt(9)); }
    if bit(5) { s.and_where(Expr::col(a("c")).gt(1)); }
    if bit(3) { s.table_sample(SampleMethod::SYSTEM, 50.0, None); }
    if bit(1) { s.distinct(); }
    s.column(a("c")).from(a("t"));
    if bit(0) { s.with_cte(cte()); }
    if bit(2) { s.use_index(IndexName::new("idx"), IndexHintScope::All); }
    if bit(4) { s.inner_join(a("u"), Expr::col((a("t"), a("c"))).equals((a("u"), a("c")))); }
    if bit(6) { s.group_by_col(a("c")); }
    if bit(8) { s.window(a("w"), WindowStatement::partition_by(a("c"))); }
    let mut eo = Exp::default();
    if bit(10) {
        let mut f = |c: Alias, o: Order, n: Option<NullOrdering>| { match n { Some(n) => { s.order_by_with_nulls(c, o, n); } None => { s.order_by(c, o); } } };
        order_item(&mut f, &mut eo, ord);
        s.order_by(a("e"), Order::Desc);
        eo.q(", `e` DESC");
    }
    if bit(12) { s.offset(6); }
    // ---- the grammar's order
    if bit(0) { e.q(&format!("WITH {CTE}")); }
    e.q("SELECT ");
    if bit(1) { e.q("DISTINCT "); }
    e.q("`c` FROM `t`");
    if bit(2) { e.both(" USE INDEX (`idx`)", ""); }            // index hints: MySQL only
    if bit(3) { e.both("", " TABLESAMPLE SYSTEM (50)"); }      // TABLESAMPLE: Postgres only
    if bit(4) { e.q(" INNER JOIN `u` ON `t`.`c` = `u`.`c`"); }
    if bit(5) { e.q(" WHERE `c` > 1"); }
    if bit(6) { e.q(" GROUP BY `c`"); }
    if bit(7) { e.q(" HAVING MAX(`c`) < 9"); }
    if bit(8) { e.dev("window-spec-without-parentheses", (" WINDOW `w` AS (PARTITION BY `c`)", " WINDOW `w` AS PARTITION BY `c`"), (" WINDOW \"w\" AS (PARTITION BY \"c\")", " WINDOW \"w\" AS PARTITION BY \"c\"")); }
    if bit(9) { e.q(" UNION ALL (SELECT `c` FROM `v`)"); }
    if bit(10) { e.q(" ORDER BY "); e.both(&eo.my, &eo.pg); }
    if bit(11) { e.q(" LIMIT 5"); }
    if bit(12) { e.q(" OFFSET 6"); }
    if bit(13) { e.q(match lock { 0 => " FOR UPDATE", 1 => " FOR SHARE", 2 => " FOR UPDATE OF `t` NOWAIT", _ => " FOR UPDATE SKIP LOCKED" }); }
    // the statement is finished the way users do: `.take()` for odd masks (it must move every clause), the builder itself otherwise
    let s = if mask & 1 != 0 || mask % 5 == 0 { s.take() } else { s };
    verdict(format!("select mask={mask} ord={ord} lock={lock}"), &e, s.to_string(MysqlQueryBuilder), s.to_string(PostgresQueryBuilder))
}

/// INSERT: shape 0 = one row, 1 = two rows, 2 = INSERT .. SELECT, 3 = default values; conflict 0..=8; returning 0 none, 1 column, 2 all
fn check_insert(shape: usize, conflict: usize, returning: usize, with: bool) -> Option<Witness> {
    let mut i = Query::insert();
    let mut e = Exp::default();
    match returning { 1 => { i.returning_col(a("a")); } 2 => { i.returning_all(); } _ => {} }
    match conflict {
        1 => { i.on_conflict(OnConflict::column(a("a")).do_nothing().to_owned()); }
        2 => { i.on_conflict(OnConflict::column(a("a")).update_columns([a("a"), a("b")]).to_owned()); }
        3 => { i.on_conflict(OnConflict::columns([a("a"), a("b")]).target_and_where(Expr::col(a("a")).gt(0)).update_column(a("b")).action_and_where(Expr::col(a("b")).lt(5)).to_owned()); }
        4 => { i.on_conflict(OnConflict::column(a("a")).value(a("b"), Expr::val(7)).to_owned()); }
        5 => { i.on_conflict(OnConflict::new().do_nothing().to_owned()); }
        6 => { i.on_conflict(OnConflict::column(a("a")).do_nothing_on([a("a")]).to_owned()); }
        // the same upsert as 3 through the other spellings of the filter builders
        7 => { i.on_conflict(OnConflict::columns([a("a"), a("b")]).target_and_where_option(Some(Expr::col(a("a")).gt(0))).update_column(a("b")).action_and_where_option(Some(Expr::col(a("b")).lt(5))).to_owned()); }
        8 => { i.on_conflict(OnConflict::columns([a("a"), a("b")]).target_cond_where(Cond::all().add(Expr::col(a("a")).gt(0))).update_column(a("b")).action_cond_where(Cond::all().add(Expr::col(a("b")).lt(5))).target_and_where_option(None).action_and_where_option(None).to_owned()); }
        _ => {}
    }
    i.into_table(a("t"));
    if with { i.with_cte(cte()); }
    match shape {
        0 => { i.columns([a("a"), a("b")]).values_panic([1.into(), 2.into()]); }
        1 => { i.columns([a("a"), a("b")]).values_panic([1.into(), 2.into()]).values_panic([3.into(), 4.into()]); }
        2 => { i.columns([a("a"), a("b")]).select_from(Query::select().column(a("c")).column(a("d")).from(a("v")).to_owned()).unwrap(); }
        3 => { i.or_default_values(); }
        // the documented fallback: no columns and an EMPTY row given explicitly, on a statement that relies on or_default_values()
        _ => { i.or_default_values().columns(Vec::<Alias>::new()).values_panic(Vec::<SimpleExpr>::new()); }
    }
    if with { e.q(&format!("WITH {CTE}")); }
    e.q("INSERT INTO `t`");
    match shape {
        0 => e.q(" (`a`, `b`) VALUES (1, 2)"),
        1 => e.q(" (`a`, `b`) VALUES (1, 2), (3, 4)"),
        2 => e.q(" (`a`, `b`) SELECT `c`, `d` FROM `v`"),
        _ => e.both(" VALUES ()", " VALUES (DEFAULT)"),
    }
    // upsert: MySQL has only ON DUPLICATE KEY UPDATE (no conflict target, no filters); Postgres ON CONFLICT [target [WHERE]] DO ..
    match conflict {
        1 => e.dev("mysql-on-duplicate-key-ignore", (" ON DUPLICATE KEY UPDATE `a` = `a`", " ON DUPLICATE KEY IGNORE"), (" ON CONFLICT (\"a\") DO NOTHING", " ON CONFLICT (\"a\") DO NOTHING")),
        2 => e.both(" ON DUPLICATE KEY UPDATE `a` = VALUES(`a`), `b` = VALUES(`b`)", " ON CONFLICT (\"a\") DO UPDATE SET \"a\" = \"excluded\".\"a\", \"b\" = \"excluded\".\"b\""),
        3 | 7 | 8 => e.both(" ON DUPLICATE KEY UPDATE `b` = VALUES(`b`)", " ON CONFLICT (\"a\", \"b\") WHERE \"a\" > 0 DO UPDATE SET \"b\" = \"excluded\".\"b\" WHERE \"b\" < 5"),
        4 => e.both(" ON DUPLICATE KEY UPDATE `b` = 7", " ON CONFLICT (\"a\") DO UPDATE SET \"b\" = 7"),
        5 => e.dev("mysql-on-duplicate-key-ignore", (" ON DUPLICATE KEY UPDATE `a` = `a`", " ON DUPLICATE KEY IGNORE"), (" ON CONFLICT DO NOTHING", " ON CONFLICT DO NOTHING")),
        // do_nothing_on(keys): the MySQL spelling of "do nothing" is a no-op assignment of the key columns
        6 => e.both(" ON DUPLICATE KEY UPDATE `a` = `a`", " ON CONFLICT (\"a\") DO NOTHING"),
        _ => {}
    }
    match returning { 1 => e.both("", " RETURNING \"a\""), 2 => e.both("", " RETURNING *"), _ => {} }   // MySQL has no RETURNING
    let label = format!("insert shape={shape} conflict={conflict} returning={returning} with={}", with as u8);
    let my = i.to_string(MysqlQueryBuilder);
    let pg = i.to_string(PostgresQueryBuilder);
    if (conflict == 1 || conflict == 5) && !my.contains("ON DUPLICATE KEY IGNORE") {
        // any valid MySQL spelling of "do nothing" is accepted: INSERT IGNORE .., or a no-op ON DUPLICATE KEY UPDATE
        let ok = (my.starts_with("INSERT IGNORE ") || my.contains("WITH ") && my.contains(" INSERT IGNORE ")) && !my.contains("ON DUPLICATE") || my.contains(" ON DUPLICATE KEY UPDATE ");
        if ok { e.my = my.clone(); }
    }
    verdict(label, &e, my, pg)
}

fn check_delete(mask: u32) -> Option<Witness> {
    let mut d = Query::delete();
    let mut e = Exp::default();
    if mask & 8 != 0 { d.returning_col(a("c")); }
    if mask & 4 != 0 { d.limit(3); }
    if mask & 16 != 0 { d.with_cte(cte()); }
    d.from_table(a("t"));
    if mask & 2 != 0 { d.order_by(a("c"), Order::Asc); }
    if mask & 1 != 0 { d.and_where(Expr::col(a("c")).gt(1)); }
    if mask & 16 != 0 { e.q(&format!("WITH {CTE}")); }
    e.q("DELETE FROM `t`");
    if mask & 1 != 0 { e.q(" WHERE `c` > 1"); }
    // MySQL writes no RETURNING; Postgres' DELETE / UPDATE has no ORDER BY / LIMIT, so its grammar fixes no relative position: the shared renderer
    // follows SQLite's (RETURNING first, C07)
    if mask & 8 != 0 { e.both("", " RETURNING \"c\""); }
    if mask & 2 != 0 { e.q(" ORDER BY `c` ASC"); }
    if mask & 4 != 0 { e.q(" LIMIT 3"); }
    verdict(format!("delete mask={mask}"), &e, d.to_string(MysqlQueryBuilder), d.to_string(PostgresQueryBuilder))
}

/// UPDATE: every table / clause given is present, in the dialect's form (MySQL: UPDATE t JOIN f ON cond SET ..; Postgres: .. SET .. FROM f WHERE cond)
fn check_update(nfrom: usize, mask: u32) -> Option<Witness> {
    let mut u = Query::update();
    let mut e = Exp::default();
    if mask & 8 != 0 { u.returning_col(a("c")); }
    if mask & 4 != 0 { u.limit(3); }
    u.table(a("t")).value(a("c"), 1).value(a("d"), 2);
    let names = ["f1", "f2", "f3"];
    for n in names.iter().take(nfrom) { u.from(a(n)); }
    if mask & 1 != 0 { u.and_where(Expr::col(a("c")).gt(1)); }
    if mask & 2 != 0 { u.order_by(a("c"), Order::Asc); }
    let label = format!("update from {nfrom} tables mask {mask:#b}");
    let (my, pg) = (u.to_string(MysqlQueryBuilder), u.to_string(PostgresQueryBuilder));
    // more than one extra table (MySQL drops all but the first: recorded finding): whatever else, the condition is rendered ONCE
    for (name, sql) in [("mysql", &my), ("postgres", &pg)] {
        if mask & 1 != 0 && sql.matches("\"c\" > 1").count() + sql.matches("`c` > 1").count() != 1 {
            return Some(Witness { property: "C08", input: format!("update cond {nfrom} tables mask {mask:#b}"), observed: format!("{name}: {sql}"), expected: "the condition is rendered exactly once".into() });
        }
    }
    for (name, sql) in [("mysql", &my), ("postgres", &pg)] {
        for n in names.iter().take(nfrom) {
            let q = if name == "mysql" { '`' } else { '"' };
            if !sql.contains(&format!("{q}{n}{q}")) {
                return Some(Witness { property: "C08", input: label, observed: format!("{name}: {sql}"), expected: format!("table {n} given with from() is rendered") });
            }
        }
    }
    if nfrom <= 1 {
        // exact text for the forms both dialects define
        e.q("UPDATE `t`");
        if nfrom == 1 { e.both(if mask & 1 != 0 { " JOIN `f1` ON `c` > 1" } else { " JOIN `f1`" }, ""); }
        e.both(if nfrom == 1 { " SET `t`.`c` = 1, `t`.`d` = 2" } else { " SET `c` = 1, `d` = 2" }, " SET \"c\" = 1, \"d\" = 2");
        if nfrom == 1 { e.both("", " FROM \"f1\""); }
        if mask & 1 != 0 { e.both(if nfrom == 1 { "" } else { " WHERE `c` > 1" }, " WHERE \"c\" > 1"); }
        if mask & 8 != 0 { e.both("", " RETURNING \"c\""); }
        if mask & 2 != 0 { e.q(" ORDER BY `c` ASC"); }
        if mask & 4 != 0 { e.q(" LIMIT 3"); }
        return verdict(label, &e, my, pg);
    }
    None
}

/// WITH [RECURSIVE] .. [SEARCH ..] [CYCLE ..] <query>: SEARCH / CYCLE are Postgres-only
fn check_with(mask: u32) -> Option<Witness> {
    let (search, cycle) = (mask & 1 != 0, mask & 2 != 0);
    let mut w = WithClause::new();
    if cycle { w.cycle(Cycle::new_from_expr_set_using(Expr::col(a("c")), a("is_cycle"), a("path"))); }
    w.recursive(true).cte(cte());
    if search { w.search(Search::new_from_order_and_expr(if mask & 4 != 0 { SearchOrder::BREADTH } else { SearchOrder::DEPTH }, SelectExpr { expr: Expr::col(a("c")).into(), alias: Some(a("ord").into_iden()), window: None })); }
    let q = Query::select().column(a("c")).from(a("t")).to_owned().with(w);
    let mut e = Exp::default();
    e.q(&format!("WITH RECURSIVE {CTE}"));
    if search { e.both("", if mask & 4 != 0 { "SEARCH BREADTH FIRST BY \"c\" SET \"ord\" " } else { "SEARCH DEPTH FIRST BY \"c\" SET \"ord\" " }); }
    if cycle { e.both("", "CYCLE \"c\" SET \"is_cycle\" USING \"path\" "); }
    e.q("SELECT `c` FROM `t`");
    verdict(format!("with mask={mask}"), &e, q.to_string(MysqlQueryBuilder), q.to_string(PostgresQueryBuilder))
}

fn check_misc(k: usize) -> Option<Witness> {
    let mut e = Exp::default();
    let (my, pg) = match k {
        0 => { let q = Query::select().column(a("x")).from_values([(1, "a"), (2, "b")], a("vals")).to_owned();
               e.both("SELECT `x` FROM (VALUES ROW(1, 'a'), ROW(2, 'b')) AS `vals`", "SELECT \"x\" FROM (VALUES (1, 'a'), (2, 'b')) AS \"vals\"");
               (q.to_string(MysqlQueryBuilder), q.to_string(PostgresQueryBuilder)) }
        1 => { let q = Query::select().column(a("c")).from(a("t")).distinct_on([a("c"), a("d")]).to_owned();
               e.both("SELECT `c` FROM `t`", "SELECT DISTINCT ON (\"c\", \"d\") \"c\" FROM \"t\"");
               (q.to_string(MysqlQueryBuilder), q.to_string(PostgresQueryBuilder)) }
        2 => { let q = Query::select().column(a("c")).from(a("t")).left_join(a("u"), Expr::col((a("t"), a("c"))).equals((a("u"), a("c")))).right_join(a("v"), Expr::col((a("t"), a("c"))).equals((a("v"), a("c")))).cross_join(a("x"), Expr::val(1).eq(1)).to_owned();
               e.q("SELECT `c` FROM `t` LEFT JOIN `u` ON `t`.`c` = `u`.`c` RIGHT JOIN `v` ON `t`.`c` = `v`.`c` CROSS JOIN `x` ON 1 = 1");
               (q.to_string(MysqlQueryBuilder), q.to_string(PostgresQueryBuilder)) }
        3 => { let q = Query::select().column(a("c")).from(a("t")).union(UnionType::Distinct, Query::select().column(a("c")).from(a("u")).to_owned()).union(UnionType::Intersect, Query::select().column(a("c")).from(a("v")).to_owned()).union(UnionType::Except, Query::select().column(a("c")).from(a("x")).to_owned()).to_owned();
               e.q("SELECT `c` FROM `t` UNION (SELECT `c` FROM `u`) INTERSECT (SELECT `c` FROM `v`) EXCEPT (SELECT `c` FROM `x`)");
               (q.to_string(MysqlQueryBuilder), q.to_string(PostgresQueryBuilder)) }
        4 => { let q = Query::select().columns([a("c"), a("d")]).expr_as(Expr::col(a("e")).add(1), a("f")).from(a("t")).from(a("u")).group_by_columns([a("c"), a("d")]).order_by(a("d"), Order::Asc).order_by(a("c"), Order::Desc).to_owned();
               e.q("SELECT `c`, `d`, `e` + 1 AS `f` FROM `t`, `u` GROUP BY `c`, `d` ORDER BY `d` ASC, `c` DESC");
               (q.to_string(MysqlQueryBuilder), q.to_string(PostgresQueryBuilder)) }
        // window frames: <n> PRECEDING / <n> FOLLOWING are an offset and a keyword (two tokens)
        5 | 6 | 7 => {
            let mut w = WindowStatement::partition_by(a("g"));
            w.order_by(a("x"), Order::Asc);
            match k { 5 => { w.frame_between(FrameType::Rows, Frame::Preceding(2), Frame::Following(3)); } 6 => { w.frame_start(FrameType::Range, Frame::Preceding(1)); } _ => { w.frame_between(FrameType::Rows, Frame::UnboundedPreceding, Frame::CurrentRow); } }
            let q = Query::select().expr_window_as(Expr::col(a("x")).sum(), w, a("s")).from(a("t")).to_owned();
            let fr = match k { 5 => "ROWS BETWEEN 2 PRECEDING AND 3 FOLLOWING", 6 => "RANGE 1 PRECEDING", _ => "ROWS BETWEEN UNBOUNDED PRECEDING AND CURRENT ROW" };
            e.q(&format!("SELECT SUM(`x`) OVER ( PARTITION BY `g` ORDER BY `x` ASC {fr} ) AS `s` FROM `t`"));
            (q.to_string(MysqlQueryBuilder), q.to_string(PostgresQueryBuilder)) }
        // a join whose condition group is empty still has its ON predicate (empty all = TRUE, empty any = FALSE)
        8 | 9 => { let c = if k == 8 { Cond::all() } else { Cond::any() };
               let q = Query::select().column(a("c")).from(a("t")).inner_join(a("u"), c).to_owned();
               e.q(if k == 8 { "SELECT `c` FROM `t` INNER JOIN `u` ON TRUE" } else { "SELECT `c` FROM `t` INNER JOIN `u` ON FALSE" });
               (q.to_string(MysqlQueryBuilder), q.to_string(PostgresQueryBuilder)) }
        // [NOT] MATERIALIZED: Postgres' form of the option given (MySQL has none)
        10 | 11 => { let c = cte().materialized(k == 10).to_owned();
               let q = Query::select().column(a("c")).from(a("t")).to_owned().with(WithClause::new().cte(c).to_owned());
               e.both("WITH `cte` (`c`) AS (SELECT `c` FROM `v`) ", if k == 10 { "WITH \"cte\" (\"c\") AS MATERIALIZED (SELECT \"c\" FROM \"v\") " } else { "WITH \"cte\" (\"c\") AS NOT MATERIALIZED (SELECT \"c\" FROM \"v\") " });
               e.q("SELECT `c` FROM `t`");
               (q.to_string(MysqlQueryBuilder), q.to_string(PostgresQueryBuilder)) }
        // a clause withdrawn again takes nothing else with it
        12 | 13 => { let mut q = Query::select(); q.column(a("c")).from(a("t")).limit(5).offset(7);
               if k == 12 { q.reset_offset(); e.q("SELECT `c` FROM `t` LIMIT 5"); } else { q.reset_limit(); e.q("SELECT `c` FROM `t` OFFSET 7"); }
               if k == 13 { return { let pg = q.to_string(PostgresQueryBuilder); if norm(&pg) == norm("SELECT \"c\" FROM \"t\" OFFSET 7") { None } else { Some(Witness { property: "C08", input: format!("misc k={k}"), observed: format!("postgres: {pg}"), expected: "SELECT \"c\" FROM \"t\" OFFSET 7".into() }) } }; }
               (q.to_string(MysqlQueryBuilder), q.to_string(PostgresQueryBuilder)) }
        _ => return None,
    };
    verdict(format!("misc k={k}"), &e, my, pg)
}

fn kv(label: &str, key: &str) -> Option<u32> {
    label.split(' ').find_map(|p| p.strip_prefix(key).and_then(|v| v.strip_prefix('=')).and_then(|v| v.parse().ok()))
}

pub fn check_one(label: &str) -> Option<Witness> {
    std::panic::set_hook(Box::new(|_| {}));
    if label.starts_with("update from") || label.starts_with("update cond") {
        let n: usize = label.split(' ').nth(2)?.parse().ok()?;
        let m = label.rsplit("0b").next().and_then(|b| u32::from_str_radix(b, 2).ok())?;
        return check_update(n, m);
    }
    if label.starts_with("select ") { return check_select(kv(label, "mask")?, kv(label, "ord")? as usize, kv(label, "lock")? as usize); }
    if label.starts_with("insert ") { return check_insert(kv(label, "shape")? as usize, kv(label, "conflict")? as usize, kv(label, "returning")? as usize, kv(label, "with")? != 0); }
    if label.starts_with("delete ") { return check_delete(kv(label, "mask")?); }
    if label.starts_with("with ") { return check_with(kv(label, "mask")?); }
    if label.starts_with("misc ") { return check_misc(kv(label, "k")? as usize); }
    None
}

pub fn search(_obl: &str) -> Vec<Witness> {
    std::panic::set_hook(Box::new(|_| {}));
    let mut found: Vec<Witness> = vec![];
    let mut per_kind: std::collections::HashMap<String, usize> = Default::default();
    // at most 3 witnesses per kind (statement family, or recorded deviation) so that one failing family cannot hide another
    let mut add = |found: &mut Vec<Witness>, w: Option<Witness>| {
        if let Some(w) = w {
            let kind = if w.observed.starts_with("known-deviation(") { w.observed.split(')').next().unwrap_or("").to_string() } else { w.input.split(' ').next().unwrap_or("").to_string() };
            let c = per_kind.entry(kind).or_insert(0);
            if *c < 3 { *c += 1; found.push(w); }
        }
    };
    macro_rules! run { ($e:expr) => { add(&mut found, std::panic::catch_unwind(std::panic::AssertUnwindSafe(|| $e)).unwrap_or(None)) }; }
    for nfrom in 0..3usize { for mask in 0..16u32 { run!(check_update(nfrom, mask)); } }
    for mask in 0..32u32 { run!(check_delete(mask)); }
    for mask in 0..8u32 { run!(check_with(mask)); }
    for k in 0..14usize { run!(check_misc(k)); }
    for shape in 0..5usize { for conflict in 0..9usize { for returning in 0..3usize { for with in [false, true] { run!(check_insert(shape, conflict, returning, with)); } } } }
    // ORDER BY item kinds x NULLS forms and lock forms, alone and with every other clause present
    for ord in 0..9usize { for lock in 0..4usize { for mask in [1 << 10, (1 << 10) | (1 << 13), (1 << SEL_BITS) - 1] { run!(check_select(mask, ord, lock)); } } }
    // every subset of the 14 SELECT clauses
    for mask in 0..(1u32 << SEL_BITS) { run!(check_select(mask, (mask % 9) as usize, (mask % 4) as usize)); }
    found
}
