//! C08 witness search (bounded): statements built from every subset of clauses, rendered by the MySQL and Postgres
//! backends; the top-level keywords (outside quotes and parentheses) must appear at most once each, in the dialect's
//! grammar order, and every clause that was given must be present.
use crate::util::Witness;
use sea_query::*;

fn a(s: &str) -> Alias { Alias::new(s) }

/// top-level keywords of `sql` in reading order
fn keywords(sql: &str) -> Vec<&'static str> {
    const KW: &[&str] = &["WITH ", "SELECT ", " FROM ", " JOIN ", " WHERE ", " GROUP BY ", " HAVING ", " WINDOW ", " UNION ", " ORDER BY ", " LIMIT ", " OFFSET ", " FOR ",
        "UPDATE ", " SET ", "DELETE ", " RETURNING ", "INSERT ", " VALUES ", " ON CONFLICT ", " ON DUPLICATE KEY UPDATE "];
    let b: Vec<char> = sql.chars().collect();
    let (mut i, mut depth, mut out) = (0usize, 0i32, vec![]);
    while i < b.len() {
        let c = b[i];
        if c == '\'' || c == '"' || c == '`' { let q = c; i += 1; while i < b.len() && b[i] != q { if b[i] == '\\' && q == '\'' { i += 1; } i += 1; } i += 1; continue; }
        if c == '(' { depth += 1; } else if c == ')' { depth -= 1; }
        if depth == 0 {
            let rest: String = b[i..(i + 26).min(b.len())].iter().collect();
            for k in KW { if rest.starts_with(k) && (i > 0 || !k.starts_with(' ')) { if !(k.starts_with(' ') == false && i > 0 && b[i - 1].is_alphanumeric()) { out.push(*k); } break; } }
        }
        i += 1;
    }
    out
}
fn rank(k: &str) -> usize {
    ["WITH ", "INSERT ", "UPDATE ", "DELETE ", "SELECT ", " FROM ", " JOIN ", " SET ", " VALUES ", " WHERE ", " GROUP BY ", " HAVING ", " WINDOW ", " UNION ", " ORDER BY ", " LIMIT ", " OFFSET ", " FOR ",
     " ON CONFLICT ", " ON DUPLICATE KEY UPDATE ", " RETURNING "].iter().position(|x| *x == k).unwrap_or(99)
}

fn check_select(mask: u32) -> Option<Witness> {
    let mut s = Query::select();
    s.column(a("c")).from(a("t"));
    let mut want: Vec<&str> = vec!["SELECT ", " FROM "];
    if mask & 1 != 0 { s.inner_join(a("u"), Expr::col((a("t"), a("c"))).equals((a("u"), a("c")))); want.push(" JOIN "); }
    if mask & 2 != 0 { s.and_where(Expr::col(a("c")).gt(1)); want.push(" WHERE "); }
    if mask & 4 != 0 { s.group_by_col(a("c")); want.push(" GROUP BY "); }
    if mask & 8 != 0 { s.and_having(Expr::col(a("c")).max().lt(9)); want.push(" HAVING "); }
    if mask & 16 != 0 { s.window(a("w"), WindowStatement::partition_by(a("c"))); want.push(" WINDOW "); }
    if mask & 32 != 0 { s.union(UnionType::All, Query::select().column(a("c")).from(a("v")).to_owned()); want.push(" UNION "); }
    if mask & 64 != 0 { s.order_by(a("c"), Order::Desc); want.push(" ORDER BY "); }
    if mask & 128 != 0 { s.limit(5); want.push(" LIMIT "); }
    if mask & 256 != 0 { s.offset(6); want.push(" OFFSET "); }
    if mask & 512 != 0 { s.lock(LockType::Update); want.push(" FOR "); }
    for (name, sql) in [("mysql", s.to_string(MysqlQueryBuilder)), ("postgres", s.to_string(PostgresQueryBuilder))] {
        let got = keywords(&sql);
        let label = format!("select clauses mask {mask:#b}");
        if got != want {
            let sorted = got.windows(2).all(|w| rank(w[0]) < rank(w[1]));
            return Some(Witness { property: "C08", input: label, observed: format!("{name}: {sql}  -- top-level keywords {got:?}{}", if sorted { "" } else { " (not in grammar order)" }), expected: format!("{want:?}") });
        }
    }
    None
}

/// UPDATE / DELETE: every table / clause given is present, keywords in grammar order, dialect-only forms only in their dialect
fn check_update(nfrom: usize, mask: u32) -> Option<Witness> {
    let mut u = Query::update();
    u.table(a("t")).value(a("c"), 1).value(a("d"), 2);
    let names = ["f1", "f2", "f3"];
    for n in names.iter().take(nfrom) { u.from(a(n)); }
    if mask & 1 != 0 { u.and_where(Expr::col(a("c")).gt(1)); }
    if mask & 2 != 0 { u.order_by(a("c"), Order::Asc); }
    if mask & 4 != 0 { u.limit(3); }
    let label = format!("update from {nfrom} tables mask {mask:#b}");
    for (name, sql) in [("mysql", u.to_string(MysqlQueryBuilder)), ("postgres", u.to_string(PostgresQueryBuilder))] {
        for n in names.iter().take(nfrom) {
            if !sql.contains(&format!("{}{n}{}", if name == "mysql" { '`' } else { '"' }, if name == "mysql" { '`' } else { '"' })) {
                return Some(Witness { property: "C08", input: label, observed: format!("{name}: {sql}"), expected: format!("table {n} given with from() is rendered") });
            }
        }
        let got = keywords(&sql);
        let urank = |k: &str| ["UPDATE ", " JOIN ", " SET ", " FROM ", " WHERE ", " ORDER BY ", " LIMIT ", " RETURNING "].iter().position(|x| *x == k).unwrap_or(99);
        if !got.windows(2).all(|w| urank(w[0]) < urank(w[1])) {
            return Some(Witness { property: "C08", input: label, observed: format!("{name}: {sql} -- keywords {got:?}"), expected: "keywords in grammar order, each once".into() });
        }
        if name == "mysql" && sql.contains(" FROM ") { return Some(Witness { property: "C08", input: label, observed: format!("{name}: {sql}"), expected: "no UPDATE..FROM on MySQL".into() }); }
        if name == "postgres" && nfrom > 0 && !sql.contains(" FROM ") { return Some(Witness { property: "C08", input: label, observed: format!("{name}: {sql}"), expected: "UPDATE..FROM on Postgres".into() }); }
        if mask & 1 != 0 && sql.matches("\"c\" > 1").count() + sql.matches("`c` > 1").count() != 1 { return Some(Witness { property: "C08", input: label, observed: format!("{name}: {sql}"), expected: "the condition is rendered exactly once".into() }); }
    }
    None
}

pub fn search(_obl: &str) -> Vec<Witness> {
    std::panic::set_hook(Box::new(|_| {}));
    let mut found = vec![];
    for nfrom in 0..3usize { for mask in 0..8u32 { if let Ok(Some(w)) = std::panic::catch_unwind(|| check_update(nfrom, mask)) { found.push(w); } } }
    for mask in 0..1024u32 { if let Ok(Some(w)) = std::panic::catch_unwind(|| check_select(mask)) { found.push(w); if found.len() >= 5 { break; } } }
    found
}
pub fn check_one(label: &str) -> Option<Witness> {
    if label.starts_with("update from") {
        let n: usize = label.split(' ').nth(2)?.parse().ok()?;
        let m = label.rsplit("0b").next().and_then(|b| u32::from_str_radix(b, 2).ok())?;
        return check_update(n, m);
    }
    let m = label.rsplit("0b").next().and_then(|b| u32::from_str_radix(b, 2).ok())?;
    std::panic::set_hook(Box::new(|_| {}));
    check_select(m)
}
