//! C07 bounded stand-in: statements built on the real crate for SQLite are EXECUTED on a real SQLite engine (python's sqlite3, driven by
//! vlib/engine.py), in the inline form and in the parameterised form with its bound values, and compared - result rows, RETURNING rows and
//! the table contents afterwards - with an INDEPENDENTLY WRITTEN, fully explicit SQL text for the same builder calls (written here by
//! hand, in SQLite's own syntax; the builder calls are made in an order different from the grammar's).  This module only produces the
//! cases.  Families: SELECT clause subsets (DISTINCT, joins, WHERE, GROUP BY / HAVING, set operations, ORDER BY with NULLS FIRST / LAST,
//! ORDER BY FIELD, LIMIT / OFFSET, CTEs, sub-queries, window functions, CASE, IN / BETWEEN / LIKE, the function-name substitutions),
//! INSERT (rows, SELECT, DEFAULT VALUES, upsert forms, RETURNING), UPDATE (SET, WHERE, FROM, ORDER BY + LIMIT, RETURNING), DELETE (WHERE,
//! ORDER BY + LIMIT, RETURNING), WITH (plain and recursive).
use crate::util::esc;
use sea_query::*;

fn a(s: &str) -> Alias { Alias::new(s) }
fn c(s: &str) -> Expr { Expr::col(a(s)) }

const FIXTURE: [&str; 5] = [
    "CREATE TABLE \"t\" (\"id\" integer PRIMARY KEY, \"g\" text, \"v\" integer, \"w\" integer)",
    "INSERT INTO \"t\" VALUES (1,'a',10,NULL),(2,'a',20,5),(3,'b',30,NULL),(4,'b',40,7),(5,'c',50,1),(6,NULL,60,2)",
    "CREATE TABLE \"u\" (\"id\" integer PRIMARY KEY, \"tid\" integer, \"x\" text UNIQUE)",
    "INSERT INTO \"u\" VALUES (1,1,'p'),(2,1,'q'),(3,3,'r'),(4,9,'s')",
    "CREATE TABLE \"k\" (\"id\" integer PRIMARY KEY, \"n\" integer DEFAULT 7, \"s\" text DEFAULT 'dflt')",
];
const SNAPS: [&str; 3] = ["SELECT * FROM \"t\" ORDER BY \"id\"", "SELECT * FROM \"u\" ORDER BY \"id\"", "SELECT * FROM \"k\" ORDER BY \"id\""];

fn value_json(v: &Value) -> String {
    match v {
        Value::Bool(Some(b)) => (if *b { "1" } else { "0" }).to_string(),
        Value::TinyInt(Some(x)) => x.to_string(), Value::SmallInt(Some(x)) => x.to_string(), Value::Int(Some(x)) => x.to_string(), Value::BigInt(Some(x)) => x.to_string(),
        Value::TinyUnsigned(Some(x)) => x.to_string(), Value::SmallUnsigned(Some(x)) => x.to_string(), Value::Unsigned(Some(x)) => x.to_string(), Value::BigUnsigned(Some(x)) => x.to_string(),
        Value::Float(Some(x)) => format!("{x:?}"), Value::Double(Some(x)) => format!("{x:?}"),
        Value::String(Some(s)) => format!("\"{}\"", esc(s)),
        Value::Char(Some(ch)) => format!("\"{}\"", esc(&ch.to_string())),
        Value::Bytes(Some(b)) => format!("{{\"hex\":\"{}\"}}", b.iter().map(|x| format!("{x:02x}")).collect::<String>()),
        _ => "null".to_string(),
    }
}

pub struct Pair { pub label: String, pub a_sql: String, pub params: Option<String>, pub b_sql: String, pub ordered: bool,
                  /// the MySQL / Postgres renderings of the same statement (inline; Postgres also parameterised): C09 compares them with SQLite's
                  pub other: Option<(String, String, String, String)> }
pub fn fixture_json() -> (String, String) {
    let fx: Vec<String> = FIXTURE.iter().map(|s| format!("\"{}\"", esc(s))).collect();
    let sn: Vec<String> = SNAPS.iter().map(|s| format!("\"{}\"", esc(s))).collect();
    (fx.join(","), sn.join(","))
}
impl Pair {
    pub fn to_json(&self) -> String {
        let fx: Vec<String> = FIXTURE.iter().map(|s| format!("\"{}\"", esc(s))).collect();
        let sn: Vec<String> = SNAPS.iter().map(|s| format!("\"{}\"", esc(s))).collect();
        format!("{{\"property\":\"C07\",\"label\":\"{}\",\"fixture\":[{}],\"a\":{{\"s\":\"{}\",\"params\":{}}},\"b\":{{\"s\":\"{}\"}},\"ordered\":{},\"snaps\":[{}]}}",
                esc(&self.label), fx.join(","), esc(&self.a_sql), self.params.clone().unwrap_or("null".into()), esc(&self.b_sql), self.ordered, sn.join(","))
    }
}

fn both<S: QueryStatementWriter>(out: &mut Vec<Pair>, label: &str, s: &S, reference: &str, ordered: bool) { both_p(out, label, s, reference, ordered, false) }
/// `portable`: the statement uses only features common to the three backends (C09 compares the three renderings)
fn both_p<S: QueryStatementWriter>(out: &mut Vec<Pair>, label: &str, s: &S, reference: &str, ordered: bool, portable: bool) {
    let inline = std::panic::catch_unwind(std::panic::AssertUnwindSafe(|| s.to_string(SqliteQueryBuilder)));
    let built = std::panic::catch_unwind(std::panic::AssertUnwindSafe(|| s.build(SqliteQueryBuilder)));
    let other = if portable {
        std::panic::catch_unwind(std::panic::AssertUnwindSafe(|| { let (p, v) = s.build(PostgresQueryBuilder); (s.to_string(MysqlQueryBuilder), s.to_string(PostgresQueryBuilder), p, format!("[{}]", v.0.iter().map(value_json).collect::<Vec<_>>().join(","))) })).ok()
    } else { None };
    match inline { Ok(sql) => out.push(Pair { label: format!("{label} [inline]"), a_sql: sql, params: None, b_sql: reference.into(), ordered, other }),
                   Err(_) => out.push(Pair { label: format!("{label} [inline]"), a_sql: "-- the renderer refused (panic) a statement of SQLite-supported features".into(), params: None, b_sql: reference.into(), ordered, other }) }
    if let Ok((sql, vals)) = built {
        let ps: Vec<String> = vals.0.iter().map(value_json).collect();
        out.push(Pair { label: format!("{label} [parameterised]"), a_sql: sql, params: Some(format!("[{}]", ps.join(","))), b_sql: reference.into(), ordered, other: None });
    }
}

pub fn cases() -> Vec<Pair> {
    let mut out = vec![];
    // ---- SELECT: 2^9 subsets of clauses; builder calls NOT in grammar order; the reference text in SQLite's grammar order
    for mask in 0..512u32 {
        let bit = |k: u32| mask & (1 << k) != 0;
        let (distinct, join, wher, group, having, union, order, limit, offset) = (bit(0), bit(1), bit(2), bit(3), bit(4), bit(5), bit(6), bit(7), bit(8));
        if having && !group { continue; }
        if offset && !limit { continue; }
        if group && join { continue; }     // keeps the reference short: the two families are covered separately
        let mut s = Query::select();
        if limit { s.limit(3); }
        if order { if group { s.order_by(a("g"), Order::Desc); } else { s.order_by_with_nulls(a("w"), Order::Asc, NullOrdering::Last).order_by(a("id"), Order::Desc); } }
        if union { s.union(UnionType::All, if group { Query::select().expr(Expr::val("zz")).expr(Expr::val(0)).to_owned() } else if join { Query::select().column(a("id")).column(a("id")).column(a("x")).from(a("u")).to_owned() } else { Query::select().column(a("id")).column(a("v")).from(a("t")).and_where(c("id").lt(3)).to_owned() }); }
        if having { s.and_having(c("v").sum().gt(30)); }
        if group { s.column(a("g")).expr(c("v").sum()).group_by_col(a("g")); } else if join { s.column((a("t"), a("id"))).column(a("w")).column(a("x")); } else { s.column(a("id")).column(a("w")); }
        if wher { s.and_where(c("v").gt(15)).and_where(c("v").ne(40)); }
        s.from(a("t"));
        if join { s.left_join(a("u"), Expr::col((a("u"), a("tid"))).equals((a("t"), a("id")))); }
        if distinct { s.distinct(); }
        if offset { s.offset(1); }
        let mut r = String::from("SELECT ");
        if distinct { r += "DISTINCT "; }
        r += if group { "\"g\", SUM(\"v\")" } else if join { "\"t\".\"id\", \"w\", \"x\"" } else { "\"id\", \"w\"" };
        r += " FROM \"t\"";
        if join { r += " LEFT JOIN \"u\" ON \"u\".\"tid\" = \"t\".\"id\""; }
        if wher { r += " WHERE (\"v\" > 15) AND (\"v\" <> 40)"; }
        if group { r += " GROUP BY \"g\""; }
        if having { r += " HAVING SUM(\"v\") > 30"; }
        if union { r += if group { " UNION ALL SELECT 'zz', 0" } else if join { " UNION ALL SELECT \"id\", \"id\", \"x\" FROM \"u\"" } else { " UNION ALL SELECT \"id\", \"v\" FROM \"t\" WHERE \"id\" < 3" }; }
        if order { r += if group { " ORDER BY \"g\" DESC" } else { " ORDER BY \"w\" ASC NULLS LAST, \"id\" DESC" }; }
        if limit { r += " LIMIT 3"; }
        if offset { r += " OFFSET 1"; }
        // without ORDER BY the row order is unspecified (rows compared as multisets; LIMIT without ORDER BY is skipped)
        if limit && !order { continue; }
        // (NULLS ordering of a compound select: MySQL's emulation is an ORDER BY EXPRESSION, which SQLite does not allow after a set operation - not comparable on this engine)
        both_p(&mut out, &format!("select mask={mask}"), &s, &r, order, !(union && order && !group));
    }
    // ---- SELECT: expression forms and the function-name substitutions
    let exprs: Vec<(&str, SimpleExpr, &str)> = vec![
        ("between", c("v").between(20, 40), "\"v\" BETWEEN 20 AND 40"), ("not between", c("v").not_between(20, 40), "\"v\" NOT BETWEEN 20 AND 40"),
        ("in list", c("id").is_in([1, 3, 5]), "\"id\" IN (1, 3, 5)"), ("not in list", c("id").is_not_in([1, 3]), "\"id\" NOT IN (1, 3)"), ("in empty", c("id").is_in(Vec::<i32>::new()), "0"),
        ("is null", c("w").is_null(), "\"w\" IS NULL"), ("is not null", c("w").is_not_null(), "\"w\" IS NOT NULL"),
        ("like escape", c("g").like(LikeExpr::new("a!%").escape('!')), "\"g\" LIKE 'a!%' ESCAPE '!'"), ("like", c("g").like("%a%"), "\"g\" LIKE '%a%'"),
        ("or / and", c("v").lt(20).or(c("v").gt(40).and(c("w").is_not_null())), "(\"v\" < 20) OR ((\"v\" > 40) AND (\"w\" IS NOT NULL))"),
        ("not", c("v").lt(30).not(), "NOT (\"v\" < 30)"), ("arith", c("v").add(c("id").mul(2)).sub(1).gt(30), "((\"v\" + (\"id\" * 2)) - 1) > 30"),
        ("in subquery", c("id").in_subquery(Query::select().column(a("tid")).from(a("u")).to_owned()), "\"id\" IN (SELECT \"tid\" FROM \"u\")"),
        ("exists", Expr::exists(Query::select().column(a("id")).from(a("u")).and_where(Expr::col((a("u"), a("tid"))).equals((a("t"), a("id")))).to_owned()), "EXISTS (SELECT \"id\" FROM \"u\" WHERE \"u\".\"tid\" = \"t\".\"id\")"),
        ("case", CaseStatement::new().case(c("v").lt(25), Expr::val(1)).case(c("v").lt(45), Expr::val(2)).finally(Expr::val(3)).into(), "CASE WHEN (\"v\" < 25) THEN 1 WHEN (\"v\" < 45) THEN 2 ELSE 3 END"),
        ("ifnull", Func::if_null(c("w"), Expr::val(0)).into(), "IFNULL(\"w\", 0)"), ("coalesce", Func::coalesce([c("w").into(), c("v").into()]).into(), "COALESCE(\"w\", \"v\")"),
        ("greatest", Func::greatest([c("v").into(), Expr::val(35).into()]).into(), "MAX(\"v\", 35)"), ("least", Func::least([c("v").into(), Expr::val(35).into()]).into(), "MIN(\"v\", 35)"),
        ("char_length", Func::char_length(c("g")).into(), "LENGTH(\"g\")"), ("lower / upper", Func::upper(Func::lower(c("g"))).into(), "UPPER(LOWER(\"g\"))"),
        ("cast", c("v").cast_as(a("text")), "CAST(\"v\" AS text)"), ("abs / neg", Func::abs(c("v").sub(35)).into(), "ABS(\"v\" - 35)"),
        ("tuple in", Expr::tuple([c("id").into(), c("v").into()]).in_tuples([(1, 10), (3, 31)]), "(\"id\", \"v\") IN ((1, 10), (3, 31))"),
        ("text", c("g").eq("it's"), "\"g\" = 'it''s'"),
        ("text crlf", c("g").ne("first\r\nsecond\ttab"), "\"g\" <> 'first\r\nsecond\ttab'"),
        ("text value", Expr::val("a\r\nb\tc'd\\e").into(), "'a\r\nb\tc''d\\e'"),
        ("text value plain specials", Expr::val("say \"hi\"\r\n\tend").into(), "'say \"hi\"\r\n\tend'"),
        ("text backslash", c("g").ne("a\\b'c"), "\"g\" <> 'a\\b''c'"),
        ("bytes", Expr::val(vec![0u8, 0x0a, 0x10, 0xff, 0x07]).into(), "x'000A10FF07'"),
        ("bytes compare", Expr::val(vec![0x0au8, 0x01]).lt(Expr::val(vec![0x0au8, 0x10])), "x'0A01' < x'0A10'"),
        ("char", Expr::val('q').into(), "'q'"), ("bool", Expr::val(true).and(c("v").gt(30)), "TRUE AND (\"v\" > 30)"), ("float", c("v").mul(1.5f64), "\"v\" * 1.5"),
    ];
    for (name, e, text) in exprs {
        let s = Query::select().column(a("id")).expr(e.clone()).from(a("t")).order_by(a("id"), Order::Asc).to_owned();
        both_p(&mut out, &format!("expr {name}"), &s, &format!("SELECT \"id\", {text} FROM \"t\" ORDER BY \"id\" ASC"), true, name != "cast");
        let s = Query::select().column(a("id")).from(a("t")).and_where(e).order_by(a("id"), Order::Asc).to_owned();
        both_p(&mut out, &format!("where {name}"), &s, &format!("SELECT \"id\" FROM \"t\" WHERE {text} ORDER BY \"id\" ASC"), true, name != "cast");
    }
    // ---- ORDER BY forms: NULLS FIRST / LAST native, ORDER BY FIELD (CASE emulation), several keys in call order
    for (k, nulls) in [None, Some(NullOrdering::First), Some(NullOrdering::Last)].into_iter().enumerate() {
        for (j, ord) in [Order::Asc, Order::Desc].into_iter().enumerate() {
            let mut s = Query::select(); s.column(a("id")).from(a("t"));
            match &nulls { Some(n) => { s.order_by_with_nulls(a("w"), ord.clone(), n.clone()); } None => { s.order_by(a("w"), ord.clone()); } }
            s.order_by(a("id"), Order::Asc);
            let r = format!("SELECT \"id\" FROM \"t\" ORDER BY \"w\" {}{}, \"id\" ASC", if j == 0 { "ASC" } else { "DESC" }, match k { 1 => " NULLS FIRST", 2 => " NULLS LAST", _ => "" });
            both_p(&mut out, &format!("order nulls={k} dir={j}"), &s, &r, true, true);
        }
    }
    let s = Query::select().column(a("id")).from(a("t")).order_by(a("g"), Order::Field(Values(vec!["b".into(), "a".into()]))).order_by(a("id"), Order::Desc).to_owned();
    both_p(&mut out, "order by field", &s, "SELECT \"id\" FROM \"t\" ORDER BY CASE WHEN \"g\" = 'b' THEN 0 WHEN \"g\" = 'a' THEN 1 ELSE 2 END, \"id\" DESC", true, true);
    // ORDER BY FIELD together with NULLS FIRST / LAST (the explicit text is the dialect's own form: the NULLS suffix attaches to the CASE expression)
    for (k, n) in [NullOrdering::First, NullOrdering::Last].into_iter().enumerate() {
        let s = Query::select().column(a("id")).from(a("t")).order_by_with_nulls(a("g"), Order::Field(Values(vec!["b".into(), "a".into()])), n).order_by(a("id"), Order::Desc).to_owned();
        both_p(&mut out, &format!("order by field nulls={k}"), &s, &format!("SELECT \"id\" FROM \"t\" ORDER BY CASE WHEN \"g\" = 'b' THEN 0 WHEN \"g\" = 'a' THEN 1 ELSE 2 END NULLS {}, \"id\" DESC", if k == 0 { "FIRST" } else { "LAST" }), true, true);
    }
    // DISTINCT over a column WITH duplicates
    let s = Query::select().distinct().column(a("g")).from(a("t")).order_by(a("g"), Order::Asc).to_owned();
    both_p(&mut out, "distinct with duplicates", &s, "SELECT DISTINCT \"g\" FROM \"t\" ORDER BY \"g\" ASC", true, true);
    let i = Query::insert().into_table(a("k")).columns([a("id"), a("n")]).select_from(Query::select().distinct().expr(c("v").div(20)).expr(Expr::val(1)).from(a("t")).to_owned()).unwrap().to_owned();
    both_p(&mut out, "insert select distinct", &i, "INSERT INTO \"k\" (\"id\", \"n\") SELECT DISTINCT \"v\" / 20, 1 FROM \"t\"", true, true);
    // ---- joins, set operations, CTEs, sub-queries, windows
    for (k, (jt, kw)) in [(JoinType::InnerJoin, "INNER JOIN"), (JoinType::LeftJoin, "LEFT JOIN"), (JoinType::CrossJoin, "CROSS JOIN")].into_iter().enumerate() {
        let mut s = Query::select(); s.column((a("t"), a("id"))).column(a("x")).from(a("t")).order_by((a("t"), a("id")), Order::Asc).order_by(a("x"), Order::Asc);
        if k == 2 { s.join(jt, a("u"), Cond::all()); } else { s.join(jt, a("u"), Cond::all().add(Expr::col((a("u"), a("tid"))).equals((a("t"), a("id")))).add(Expr::col((a("u"), a("x"))).ne("q"))); }
        let on = if k == 2 { " ON TRUE".to_string() } else { " ON \"u\".\"tid\" = \"t\".\"id\" AND \"u\".\"x\" <> 'q'".to_string() };
        both_p(&mut out, &format!("join kind={k}"), &s, &format!("SELECT \"t\".\"id\", \"x\" FROM \"t\" {kw} \"u\"{on} ORDER BY \"t\".\"id\" ASC, \"x\" ASC"), true, true);
    }
    for (k, (ut, kw)) in [(UnionType::Distinct, "UNION"), (UnionType::All, "UNION ALL"), (UnionType::Intersect, "INTERSECT"), (UnionType::Except, "EXCEPT")].into_iter().enumerate() {
        let s = Query::select().column(a("id")).from(a("t")).and_where(c("id").lt(5)).union(ut, Query::select().column(a("tid")).from(a("u")).to_owned()).union(UnionType::All, Query::select().expr(Expr::val(77)).to_owned()).order_by(a("id"), Order::Asc).to_owned();
        both_p(&mut out, &format!("set operation {k}"), &s, &format!("SELECT \"id\" FROM \"t\" WHERE \"id\" < 5 {kw} SELECT \"tid\" FROM \"u\" UNION ALL SELECT 77 ORDER BY \"id\" ASC"), true, true);
    }
    let s = Query::select().column(a("id")).from_subquery(Query::select().column(a("id")).column(a("v")).from(a("t")).and_where(c("v").gt(20)).to_owned(), a("s")).and_where(c("v").lt(60)).order_by(a("id"), Order::Desc).to_owned();
    both_p(&mut out, "from subquery", &s, "SELECT \"id\" FROM (SELECT \"id\", \"v\" FROM \"t\" WHERE \"v\" > 20) AS \"s\" WHERE \"v\" < 60 ORDER BY \"id\" DESC", true, true);
    let cte = CommonTableExpression::new().query(Query::select().column(a("id")).column(a("v")).from(a("t")).and_where(c("v").gte(30)).to_owned()).table_name(a("big")).columns([a("i"), a("vv")]).to_owned();
    let s = Query::select().column(a("i")).column(a("vv")).from(a("big")).order_by(a("i"), Order::Asc).to_owned().with(WithClause::new().cte(cte.clone()).to_owned());
    both_p(&mut out, "with cte", &s, "WITH \"big\" (\"i\", \"vv\") AS (SELECT \"id\", \"v\" FROM \"t\" WHERE \"v\" >= 30) SELECT \"i\", \"vv\" FROM \"big\" ORDER BY \"i\" ASC", true, true);
    let base = Query::select().expr_as(Expr::val(1), a("n")).to_owned();
    let rec = Query::select().expr(c("n").add(1)).from(a("cnt")).and_where(c("n").lt(4)).to_owned();
    let cte = CommonTableExpression::new().query(base.clone().union(UnionType::All, rec).to_owned()).table_name(a("cnt")).columns([a("n")]).to_owned();
    let s = Query::select().column(a("n")).from(a("cnt")).order_by(a("n"), Order::Asc).to_owned().with(WithClause::new().recursive(true).cte(cte).to_owned());
    both_p(&mut out, "with recursive", &s, "WITH RECURSIVE \"cnt\" (\"n\") AS (SELECT 1 AS \"n\" UNION ALL SELECT \"n\" + 1 FROM \"cnt\" WHERE \"n\" < 4) SELECT \"n\" FROM \"cnt\" ORDER BY \"n\" ASC", true, true);
    let s = Query::select().column(a("id")).expr_window_as(c("v").sum(), WindowStatement::partition_by(a("g")).order_by(a("id"), Order::Asc).to_owned(), a("run")).from(a("t")).order_by(a("id"), Order::Asc).to_owned();
    both_p(&mut out, "window inline", &s, "SELECT \"id\", SUM(\"v\") OVER (PARTITION BY \"g\" ORDER BY \"id\" ASC) AS \"run\" FROM \"t\" ORDER BY \"id\" ASC", true, true);
    let s = Query::select().column(a("id")).expr_window_as(c("v").sum(), WindowStatement::partition_by(a("g")).order_by(a("id"), Order::Asc).frame_between(FrameType::Rows, Frame::Preceding(1), Frame::CurrentRow).to_owned(), a("run")).from(a("t")).order_by(a("id"), Order::Asc).to_owned();
    both_p(&mut out, "window frame", &s, "SELECT \"id\", SUM(\"v\") OVER (PARTITION BY \"g\" ORDER BY \"id\" ASC ROWS BETWEEN 1 PRECEDING AND CURRENT ROW) AS \"run\" FROM \"t\" ORDER BY \"id\" ASC", true, true);
    let s = Query::select().column(a("id")).expr_window_name_as(c("v").sum(), a("w1"), a("run")).from(a("t")).window(a("w1"), WindowStatement::partition_by(a("g"))).order_by(a("id"), Order::Asc).to_owned();
    both_p(&mut out, "window named", &s, "SELECT \"id\", SUM(\"v\") OVER \"w1\" AS \"run\" FROM \"t\" WINDOW \"w1\" AS (PARTITION BY \"g\") ORDER BY \"id\" ASC", true, true);
    let s = Query::select().column(a("id")).from(a("t")).order_by(a("id"), Order::Asc).lock(LockType::Update).to_owned();
    both(&mut out, "lock (omitted on SQLite)", &s, "SELECT \"id\" FROM \"t\" ORDER BY \"id\" ASC", true);
    // ---- builder state: a clause removed again takes nothing else with it (reset_* / clear_* after other clauses were given)
    let s = Query::select().column(a("id")).from(a("t")).order_by(a("id"), Order::Asc).limit(2).offset(1).reset_offset().to_owned();
    both(&mut out, "state limit offset reset_offset", &s, "SELECT \"id\" FROM \"t\" ORDER BY \"id\" ASC LIMIT 2", true);
    let s = Query::select().column(a("id")).from(a("t")).order_by(a("id"), Order::Asc).limit(2).reset_offset().to_owned();
    both(&mut out, "state limit reset_offset", &s, "SELECT \"id\" FROM \"t\" ORDER BY \"id\" ASC LIMIT 2", true);
    let s = Query::select().column(a("id")).from(a("t")).order_by(a("id"), Order::Asc).limit(2).offset(1).reset_limit().limit(3).to_owned();
    both(&mut out, "state reset_limit limit", &s, "SELECT \"id\" FROM \"t\" ORDER BY \"id\" ASC LIMIT 3 OFFSET 1", true);
    let s = Query::select().column(a("v")).from(a("t")).and_where(c("v").gt(20)).order_by(a("v"), Order::Desc).limit(4).clear_order_by().order_by(a("id"), Order::Asc).to_owned();
    both(&mut out, "state clear_order_by", &s, "SELECT \"v\" FROM \"t\" WHERE \"v\" > 20 ORDER BY \"id\" ASC LIMIT 4", true);
    let s = Query::select().column(a("v")).distinct().from(a("u")).and_where(c("id").lt(5)).group_by_col(a("g")).clear_selects().from_clear().column(a("g")).from(a("t")).order_by(a("g"), Order::Asc).to_owned();
    both(&mut out, "state clear_selects from_clear", &s, "SELECT DISTINCT \"g\" FROM \"t\" WHERE \"id\" < 5 GROUP BY \"g\" ORDER BY \"g\" ASC", true);
    let mut s = Query::select(); s.column(a("id")).from(a("t")).order_by(a("id"), Order::Asc).limit(2).offset(2);
    let s = s.take();
    both(&mut out, "state take keeps limit and offset", &s, "SELECT \"id\" FROM \"t\" ORDER BY \"id\" ASC LIMIT 2 OFFSET 2", true);
    // appending twice: unions() after union() keeps the earlier operand; a frame with numeric PRECEDING and FOLLOWING bounds
    let part = |k: i32| Query::select().column(a("id")).from(a("t")).and_where(c("id").eq(k)).to_owned();
    let s = part(1).union(UnionType::All, part(2)).unions([(UnionType::All, part(3)), (UnionType::All, part(4))]).order_by(a("id"), Order::Asc).to_owned();
    both_p(&mut out, "state union then unions", &s, "SELECT \"id\" FROM \"t\" WHERE \"id\" = 1 UNION ALL SELECT \"id\" FROM \"t\" WHERE \"id\" = 2 UNION ALL SELECT \"id\" FROM \"t\" WHERE \"id\" = 3 UNION ALL SELECT \"id\" FROM \"t\" WHERE \"id\" = 4 ORDER BY \"id\" ASC", true, true);
    let s = Query::select().column(a("id")).expr_window_as(c("v").sum(), WindowStatement::new().order_by(a("id"), Order::Asc).frame_between(FrameType::Rows, Frame::Preceding(1), Frame::Following(2)).to_owned(), a("run")).from(a("t")).order_by(a("id"), Order::Asc).to_owned();
    both_p(&mut out, "window frame preceding following", &s, "SELECT \"id\", SUM(\"v\") OVER (ORDER BY \"id\" ASC ROWS BETWEEN 1 PRECEDING AND 2 FOLLOWING) AS \"run\" FROM \"t\" ORDER BY \"id\" ASC", true, true);
    let s = Query::select().column(a("id")).expr_window_as(c("v").sum(), WindowStatement::new().order_by(a("id"), Order::Asc).frame_between(FrameType::Rows, Frame::CurrentRow, Frame::UnboundedFollowing).to_owned(), a("run")).from(a("t")).order_by(a("id"), Order::Asc).to_owned();
    both_p(&mut out, "window frame current unbounded", &s, "SELECT \"id\", SUM(\"v\") OVER (ORDER BY \"id\" ASC ROWS BETWEEN CURRENT ROW AND UNBOUNDED FOLLOWING) AS \"run\" FROM \"t\" ORDER BY \"id\" ASC", true, true);
    // a row that is longer / shorter than the column list is refused by values(); if it were accepted the engine must still take the statement
    for (k, n) in [(0usize, 3usize), (1, 1)] {
        let mut i = Query::insert(); i.into_table(a("k")).columns([a("id"), a("n")]).values_panic([50.into(), 1.into()]);
        let row: Vec<SimpleExpr> = (0..n).map(|x| Expr::val(60 + x as i32).into()).collect();
        let _ = i.values(row);
        both(&mut out, &format!("insert refused row {k}"), &i, "INSERT INTO \"k\" (\"id\", \"n\") VALUES (50, 1)", true);
    }
    // .. and so is a SELECT source with fewer / more expressions than columns: the statement keeps what it had (here: its rows)
    for (k, n) in [(0usize, 1usize), (1, 3)] {
        let mut i = Query::insert(); i.into_table(a("k")).columns([a("id"), a("n")]).values_panic([50.into(), 1.into()]);
        let mut q = Query::select(); for x in 0..n { q.expr(Expr::val(70 + x as i32)); }
        let _ = i.select_from(q);
        both(&mut out, &format!("insert refused select source {k}"), &i, "INSERT INTO \"k\" (\"id\", \"n\") VALUES (50, 1)", true);
    }
    // a window builder emptied by take() starts over: nothing of the first window (partition, order, frame) reaches the second
    let mut w = WindowStatement::partition_by(a("g")); w.order_by(a("id"), Order::Asc).frame_start(FrameType::Rows, Frame::UnboundedPreceding);
    let _first = w.take();
    w.add_partition_by(SimpleExpr::from(c("g")));
    let s = Query::select().column(a("id")).expr_window_as(c("v").sum(), w.take(), a("tot")).from(a("t")).order_by(a("id"), Order::Asc).to_owned();
    both(&mut out, "state window take then reuse", &s, "SELECT \"id\", SUM(\"v\") OVER (PARTITION BY \"g\") AS \"tot\" FROM \"t\" ORDER BY \"id\" ASC", true);
    // ---- INSERT
    for shape in 0..4 { for conflict in 0..7 { for ret in 0..3 {
        if shape == 3 && conflict != 0 { continue; }
        let mut i = Query::insert();
        match ret { 1 => { i.returning_col(a("id")); } 2 => { i.returning_all(); } _ => {} }
        match conflict {
            1 => { i.on_conflict(OnConflict::column(a("x")).do_nothing().to_owned()); }
            2 => { i.on_conflict(OnConflict::column(a("x")).update_column(a("tid")).to_owned()); }
            3 => { i.on_conflict(OnConflict::column(a("x")).value(a("tid"), Expr::val(99)).action_and_where(Expr::col((a("u"), a("id"))).gt(1)).to_owned()); }
            4 => { i.on_conflict(OnConflict::new().do_nothing().to_owned()); }
            // the same upsert as 3 through the other spellings of the action's filter
            5 => { i.on_conflict(OnConflict::column(a("x")).value(a("tid"), Expr::val(99)).action_and_where_option(Some(Expr::col((a("u"), a("id"))).gt(1))).target_and_where_option(None).to_owned()); }
            6 => { i.on_conflict(OnConflict::column(a("x")).value(a("tid"), Expr::val(99)).action_cond_where(Cond::all().add(Expr::col((a("u"), a("id"))).gt(1))).action_and_where_option(None).to_owned()); }
            _ => {}
        }
        let (tbl, mut r) = if shape == 3 { i.into_table(a("k")).or_default_values(); ("k", String::from("INSERT INTO \"k\" DEFAULT VALUES")) } else { i.into_table(a("u")).columns([a("id"), a("tid"), a("x")]); ("u", String::from("INSERT INTO \"u\" (\"id\", \"tid\", \"x\") ")) };
        let _ = tbl;
        match shape {
            0 => { i.values_panic([10.into(), 5.into(), "p".into()]); r += "VALUES (10, 5, 'p')"; }
            1 => { i.values_panic([10.into(), 5.into(), "n1".into()]).values_panic([11.into(), 6.into(), "q".into()]); r += "VALUES (10, 5, 'n1'), (11, 6, 'q')"; }
            2 => { i.select_from(Query::select().expr(c("id").add(20)).column(a("v")).column(a("g")).from(a("t")).and_where(c("g").is_not_null()).and_where(c("id").lt(3)).to_owned()).unwrap(); r += "SELECT \"id\" + 20, \"v\", \"g\" FROM \"t\" WHERE \"g\" IS NOT NULL AND \"id\" < 3"; }
            _ => {}
        }
        // conflict target x: rows with x = 'p' / 'q' collide with the fixture; shape 2 inserts x = 'a' twice (second collides with the first)
        if (conflict == 0) && (shape == 0 || shape == 1 || shape == 2) { continue; }   // a plain collision is an engine error in both: nothing to compare
        if shape == 2 && conflict != 0 { r += " "; r = r.replace(" WHERE \"g\"", " WHERE true AND \"g\""); }   // SQLite's parsing ambiguity: INSERT .. SELECT .. ON CONFLICT needs a WHERE clause - both have one
        r += match conflict { 1 => " ON CONFLICT (\"x\") DO NOTHING", 2 => " ON CONFLICT (\"x\") DO UPDATE SET \"tid\" = \"excluded\".\"tid\"", 3 | 5 | 6 => " ON CONFLICT (\"x\") DO UPDATE SET \"tid\" = 99 WHERE \"u\".\"id\" > 1", 4 => " ON CONFLICT DO NOTHING", _ => "" };
        r += match ret { 1 => " RETURNING \"id\"", 2 => " RETURNING *", _ => "" };
        both(&mut out, &format!("insert shape={shape} conflict={conflict} returning={ret}"), &i, &r.replace("  ", " "), true);
    } } }
    // plain INSERTs that collide with nothing (portable: the three backends render the same statement)
    let i = Query::insert().into_table(a("u")).columns([a("id"), a("tid"), a("x")]).values_panic([10.into(), 5.into(), "n1".into()]).values_panic([11.into(), 6.into(), "it's".into()]).to_owned();
    both_p(&mut out, "insert plain rows", &i, "INSERT INTO \"u\" (\"id\", \"tid\", \"x\") VALUES (10, 5, 'n1'), (11, 6, 'it''s')", true, true);
    let i = Query::insert().into_table(a("u")).columns([a("id"), a("tid"), a("x")]).select_from(Query::select().expr(c("id").add(20)).column(a("v")).expr(Func::upper(c("g"))).from(a("t")).and_where(c("id").is_in([1, 3, 5])).to_owned()).unwrap().to_owned();
    both_p(&mut out, "insert plain select", &i, "INSERT INTO \"u\" (\"id\", \"tid\", \"x\") SELECT \"id\" + 20, \"v\", UPPER(\"g\") FROM \"t\" WHERE \"id\" IN (1, 3, 5)", true, true);
    // ---- UPDATE
    for mask in 0..32u32 {
        let bit = |k: u32| mask & (1 << k) != 0;
        let (wher, from, order_limit, ret, two) = (bit(0), bit(1), bit(2), bit(3), bit(4));
        if from && order_limit { continue; }     // SQLite: ORDER BY / LIMIT on UPDATE is not allowed together with FROM
        let mut s = Query::update();
        if ret { s.returning(Query::returning().columns([a("id"), a("v")])); }
        if order_limit { s.order_by(a("id"), Order::Desc).limit(2); }
        s.table(a("t"));
        if two { s.value(a("w"), Expr::col(a("v")).add(1)); }
        s.value(a("v"), if from { Expr::col((a("u"), a("id"))).mul(100) } else { Expr::val(0).into() });
        if from { s.from(a("u")).and_where(Expr::col((a("u"), a("tid"))).equals((a("t"), a("id")))).and_where(Expr::col((a("u"), a("x"))).ne("q")); }
        if wher { s.and_where(Expr::col((a("t"), a("id"))).gt(1)); }
        let mut r = String::from("UPDATE \"t\" SET ");
        if two { r += "\"w\" = \"v\" + 1, "; }
        r += if from { "\"v\" = \"u\".\"id\" * 100 FROM \"u\"" } else { "\"v\" = 0" };
        let mut conds = vec![];
        if from { conds.push("\"u\".\"tid\" = \"t\".\"id\""); conds.push("\"u\".\"x\" <> 'q'"); }
        if wher { conds.push("\"t\".\"id\" > 1"); }
        if !conds.is_empty() { r += " WHERE "; r += &conds.join(" AND "); }
        // SQLite's grammar (update-stmt-limited): [WHERE] [RETURNING] [ORDER BY] [LIMIT]
        if ret { r += " RETURNING \"id\", \"v\""; }
        if order_limit { r += " ORDER BY \"id\" DESC LIMIT 2"; }
        both_p(&mut out, &format!("update mask={mask}"), &s, &r, false, !from && !order_limit && !ret);
    }
    // ---- DELETE
    for mask in 0..8u32 {
        let bit = |k: u32| mask & (1 << k) != 0;
        let (wher, order_limit, ret) = (bit(0), bit(1), bit(2));
        let mut s = Query::delete();
        if ret { s.returning_col(a("id")); }
        if order_limit { s.limit(2).order_by(a("v"), Order::Desc); }
        if wher { s.and_where(c("g").is_not_null()).and_where(c("v").lt(55)); }
        s.from_table(a("t"));
        let mut r = String::from("DELETE FROM \"t\"");
        if wher { r += " WHERE \"g\" IS NOT NULL AND \"v\" < 55"; }
        // SQLite's grammar (delete-stmt-limited): [WHERE] [RETURNING] [ORDER BY] [LIMIT]
        if ret { r += " RETURNING \"id\""; }
        if order_limit { r += " ORDER BY \"v\" DESC LIMIT 2"; }
        both_p(&mut out, &format!("delete mask={mask}"), &s, &r, false, !order_limit && !ret);
    }
    out
}
