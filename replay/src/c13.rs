//! C13 bounded stand-in: SQLite schema statements built on the real crate, EXECUTED on a real SQLite engine (python's sqlite3, driven by
//! vlib/engine.py) and compared with the engine's own catalogue.  This module only produces the cases: the statements rendered by
//! SqliteQueryBuilder, follow-up probe statements, and catalogue queries with the rows the DECLARATION (the builder calls below) implies.
//! Families: every column type alone (storage affinity by typeof() probes); column specification subsets in several declaration orders
//! [thorough tier: up to 4] (table_xinfo: nullability, default, primary key, hidden; index_list: uniqueness; sqlite_sequence: autoincrement; CHECK by a violating
//! insert); table-level primary key / unique constraints and foreign keys (index_xinfo, foreign_key_list); CREATE / DROP INDEX forms
//! (columns, direction, uniqueness, partial predicate); ALTER TABLE add / rename / drop column, RENAME TO, DROP TABLE.
use crate::util::esc;
use sea_query::*;

fn a(s: &str) -> Alias { Alias::new(s) }
fn run<F: FnOnce() -> String>(f: F) -> Option<String> { std::panic::catch_unwind(std::panic::AssertUnwindSafe(f)).ok() }

pub struct Case { pub label: String, pub steps: Vec<(String, bool)>, pub checks: Vec<(String, String)> }
impl Case {
    fn new(label: impl Into<String>) -> Self { Case { label: label.into(), steps: vec![], checks: vec![] } }
    fn ok(mut self, s: impl Into<String>) -> Self { self.steps.push((s.into(), false)); self }
    fn fails(mut self, s: impl Into<String>) -> Self { self.steps.push((s.into(), true)); self }
    /// `rows`: JSON text of the expected result rows (list of lists)
    fn check(mut self, q: impl Into<String>, rows: impl Into<String>) -> Self { self.checks.push((q.into(), rows.into())); self }
    pub fn to_json(&self) -> String {
        let steps: Vec<String> = self.steps.iter().map(|(s, f)| format!("{{\"s\":\"{}\",\"fail\":{}}}", esc(s), f)).collect();
        let checks: Vec<String> = self.checks.iter().map(|(q, r)| format!("{{\"q\":\"{}\",\"rows\":{}}}", esc(q), r)).collect();
        format!("{{\"property\":\"C13\",\"label\":\"{}\",\"steps\":[{}],\"checks\":[{}]}}", esc(&self.label), steps.join(","), checks.join(","))
    }
}

#[derive(Clone, Copy, PartialEq, Debug)]
enum Aff { Int, Real, Text, Blob, Numeric }
/// typeof() of a TEXT '123' and of an INTEGER 123 stored into a column of that affinity (datatype3.html 3: INTEGER and NUMERIC store alike)
fn probes(x: Aff) -> &'static str {
    match x { Aff::Text => r#"[["text"],["text"]]"#, Aff::Int | Aff::Numeric => r#"[["integer"],["integer"]]"#, Aff::Real => r#"[["real"],["real"]]"#, Aff::Blob => r#"[["text"],["integer"]]"# }
}
/// the affinity intended for each abstract type (hand-written, from the property: integer, real, text, blob or numeric)
fn types() -> Vec<(&'static str, Box<dyn Fn(&mut ColumnDef)>, Aff)> {
    let mut v: Vec<(&'static str, Box<dyn Fn(&mut ColumnDef)>, Aff)> = vec![];
    macro_rules! t { ($n:expr, $f:expr, $a:expr) => { v.push(($n, Box::new($f), $a)); } }
    t!("char", |c: &mut ColumnDef| { c.char(); }, Aff::Text); t!("char_len", |c: &mut ColumnDef| { c.char_len(7); }, Aff::Text);
    t!("string", |c: &mut ColumnDef| { c.string(); }, Aff::Text); t!("string_len", |c: &mut ColumnDef| { c.string_len(40); }, Aff::Text); t!("text", |c: &mut ColumnDef| { c.text(); }, Aff::Text);
    t!("tiny_integer", |c: &mut ColumnDef| { c.tiny_integer(); }, Aff::Int); t!("small_integer", |c: &mut ColumnDef| { c.small_integer(); }, Aff::Int);
    t!("integer", |c: &mut ColumnDef| { c.integer(); }, Aff::Int); t!("big_integer", |c: &mut ColumnDef| { c.big_integer(); }, Aff::Int);
    t!("tiny_unsigned", |c: &mut ColumnDef| { c.tiny_unsigned(); }, Aff::Int); t!("small_unsigned", |c: &mut ColumnDef| { c.small_unsigned(); }, Aff::Int);
    t!("unsigned", |c: &mut ColumnDef| { c.unsigned(); }, Aff::Int); t!("big_unsigned", |c: &mut ColumnDef| { c.big_unsigned(); }, Aff::Int);
    t!("float", |c: &mut ColumnDef| { c.float(); }, Aff::Real); t!("double", |c: &mut ColumnDef| { c.double(); }, Aff::Real);
    t!("decimal", |c: &mut ColumnDef| { c.decimal(); }, Aff::Real); t!("decimal_len", |c: &mut ColumnDef| { c.decimal_len(12, 3); }, Aff::Real);
    t!("date_time", |c: &mut ColumnDef| { c.date_time(); }, Aff::Text); t!("timestamp", |c: &mut ColumnDef| { c.timestamp(); }, Aff::Text);
    t!("timestamp_with_time_zone", |c: &mut ColumnDef| { c.timestamp_with_time_zone(); }, Aff::Text); t!("time", |c: &mut ColumnDef| { c.time(); }, Aff::Text); t!("date", |c: &mut ColumnDef| { c.date(); }, Aff::Text);
    t!("binary_len", |c: &mut ColumnDef| { c.binary_len(9); }, Aff::Blob); t!("var_binary", |c: &mut ColumnDef| { c.var_binary(33); }, Aff::Blob); t!("blob", |c: &mut ColumnDef| { c.blob(); }, Aff::Blob);
    t!("boolean", |c: &mut ColumnDef| { c.boolean(); }, Aff::Numeric); t!("money", |c: &mut ColumnDef| { c.money(); }, Aff::Real); t!("money_len", |c: &mut ColumnDef| { c.money_len(11, 2); }, Aff::Real);
    t!("json", |c: &mut ColumnDef| { c.json(); }, Aff::Text); t!("json_binary", |c: &mut ColumnDef| { c.json_binary(); }, Aff::Text); t!("uuid", |c: &mut ColumnDef| { c.uuid(); }, Aff::Text);
    // forms only reachable through ColumnDef::new_with_type (the builder methods always give a length)
    t!("var_binary none", |c: &mut ColumnDef| { *c = ColumnDef::new_with_type(Alias::new("c"), ColumnType::VarBinary(StringLen::None)); }, Aff::Blob);
    t!("var_binary max", |c: &mut ColumnDef| { *c = ColumnDef::new_with_type(Alias::new("c"), ColumnType::VarBinary(StringLen::Max)); }, Aff::Blob);
    t!("string max", |c: &mut ColumnDef| { *c = ColumnDef::new_with_type(Alias::new("c"), ColumnType::String(StringLen::Max)); }, Aff::Text);
    t!("char none", |c: &mut ColumnDef| { *c = ColumnDef::new_with_type(Alias::new("c"), ColumnType::Char(None)); }, Aff::Text);
    t!("decimal none", |c: &mut ColumnDef| { *c = ColumnDef::new_with_type(Alias::new("c"), ColumnType::Decimal(None)); }, Aff::Real);
    t!("money none", |c: &mut ColumnDef| { *c = ColumnDef::new_with_type(Alias::new("c"), ColumnType::Money(None)); }, Aff::Real);
    t!("enumeration", |c: &mut ColumnDef| { c.enumeration(a("e"), [a("x"), a("y")]); }, Aff::Text);
    v
}

#[derive(Clone, Copy, PartialEq, Debug)]
enum Sp { NotNull, Null, Default, Unique, Primary, AutoInc, Check, Generated, Extra, Comment }
fn add_spec(c: &mut ColumnDef, s: Sp) {
    match s { Sp::NotNull => { c.not_null(); } Sp::Null => { c.null(); } Sp::Default => { c.default(7); } Sp::Unique => { c.unique_key(); } Sp::Primary => { c.primary_key(); }
              Sp::AutoInc => { c.auto_increment(); } Sp::Check => { c.check(Expr::col(a("c")).gt(1)); } Sp::Generated => { c.generated(Expr::col(a("k")).add(1), true); }
              Sp::Extra => { c.extra("COLLATE NOCASE"); } Sp::Comment => { c.comment("it's"); } }
}

pub fn cases() -> Vec<Case> {
    let mut out = vec![];
    let b = SqliteQueryBuilder;
    // ---- 1. every column type alone: the declared name carries the intended storage affinity
    for (name, set, aff) in types() {
        let sql = run(|| { let mut c = ColumnDef::new(a("c")); set(&mut c); Table::create().table(a("t")).col(&mut c).to_string(SqliteQueryBuilder) });
        match sql {
            Some(s) => out.push(Case::new(format!("type {name}")).ok(s).ok("INSERT INTO \"t\" VALUES ('123')").ok("INSERT INTO \"t\" VALUES (123)")
                .check("SELECT typeof(\"c\") FROM \"t\" ORDER BY rowid", probes(aff)).check("SELECT name FROM pragma_table_xinfo('t')", r#"[["c"]]"#)),
            None => out.push(Case::new(format!("type {name}")).fails("-- the renderer refused a type SQLite can hold")),
        }
        // the integer types as auto-increment primary keys (lang_autoinc.html)
        if aff == Aff::Int {
            let s = run(|| { let mut c = ColumnDef::new(a("c")); set(&mut c); c.not_null().auto_increment().primary_key(); Table::create().table(a("t")).col(&mut c).col(ColumnDef::new(a("d")).integer()).to_string(SqliteQueryBuilder) });
            if let Some(s) = s {
                out.push(Case::new(format!("autoincrement {name}")).ok(s).ok("INSERT INTO \"t\" (\"d\") VALUES (5)").ok("INSERT INTO \"t\" (\"d\") VALUES (6)")
                    .check("SELECT \"c\" FROM \"t\" ORDER BY \"c\"", "[[1],[2]]").check("SELECT name, seq FROM sqlite_sequence", r#"[["t",2]]"#)
                    .check("SELECT name, \"notnull\", pk FROM pragma_table_xinfo('t')", r#"[["c",1,1],["d",0,0]]"#));
            }
        }
    }
    // ---- 2. column specifications, in every order of up to 3 out of 9 (AUTOINCREMENT only next to PRIMARY KEY; GENERATED not with DEFAULT / PRIMARY KEY)
    let specs = [Sp::NotNull, Sp::Null, Sp::Default, Sp::Unique, Sp::Primary, Sp::AutoInc, Sp::Check, Sp::Extra, Sp::Comment, Sp::Generated];
    let mut seqs: Vec<Vec<Sp>> = vec![vec![]];
    for x in specs { seqs.push(vec![x]); for y in specs { if x != y { seqs.push(vec![x, y]); for z in specs { if z != x && z != y { seqs.push(vec![x, y, z]);
        // thorough tier (VREPLAY_DEEP=1): sequences of 4 specifications as well
        if crate::util::deep() { for u in specs { if u != x && u != y && u != z { seqs.push(vec![x, y, z, u]); } } } } } } } }
    for sq in seqs {
        let has = |s: Sp| sq.contains(&s);
        if has(Sp::AutoInc) && !has(Sp::Primary) { continue; }                 // not SQLite syntax: AUTOINCREMENT belongs to PRIMARY KEY
        if has(Sp::Generated) && (has(Sp::Default) || has(Sp::Primary) || has(Sp::AutoInc)) { continue; }   // the engine forbids these on generated columns
        if has(Sp::NotNull) && has(Sp::Null) { continue; }
        let sql = run(|| { let mut c = ColumnDef::new(a("c")); c.integer(); for s in &sq { add_spec(&mut c, *s); }
            Table::create().table(a("t")).col(ColumnDef::new(a("k")).integer()).col(&mut c).to_string(SqliteQueryBuilder) });
        let label = format!("specs {:?}", sq);
        let Some(sql) = sql else { out.push(Case::new(label).fails("-- the renderer refused specifications SQLite has")); continue };
        let notnull = if has(Sp::NotNull) { 1 } else { 0 };
        let dflt = if has(Sp::Default) { "\"7\"" } else { "null" };
        let pk = if has(Sp::Primary) { 1 } else { 0 };
        let hidden = if has(Sp::Generated) { 3 } else { 0 };
        let mut c = Case::new(label).ok(sql)
            .check("SELECT name, \"notnull\", dflt_value, pk, hidden FROM pragma_table_xinfo('t')", format!("[[\"k\",0,null,0,0],[\"c\",{notnull},{dflt},{pk},{hidden}]]"));
        // uniqueness: one automatic index per UNIQUE / (non-rowid) PRIMARY KEY constraint
        let n_uniq = if has(Sp::Unique) { 1 } else { 0 };
        c = c.check("SELECT count(*) FROM pragma_index_list('t') WHERE origin = 'u'", format!("[[{n_uniq}]]"));
        c = c.check("SELECT count(*) FROM sqlite_master WHERE name = 'sqlite_sequence'", format!("[[{}]]", if has(Sp::AutoInc) { 1 } else { 0 }));
        if has(Sp::Check) && !has(Sp::Generated) { c = c.fails("INSERT INTO \"t\" (\"k\", \"c\") VALUES (1, 0)").ok("INSERT INTO \"t\" (\"k\", \"c\") VALUES (1, 5)"); }
        if has(Sp::Extra) { c = c.check("SELECT sql LIKE '%COLLATE NOCASE%' FROM sqlite_master WHERE name = 't'", "[[1]]"); }
        out.push(c);
    }
    // generated columns: STORED (hidden = 3) and VIRTUAL (hidden = 2)
    for (stored, hidden) in [(true, 3), (false, 2)] {
        let sql = run(move || Table::create().table(a("t")).col(ColumnDef::new(a("k")).integer()).col(ColumnDef::new(a("c")).integer().generated(Expr::col(a("k")).mul(2), stored)).to_string(SqliteQueryBuilder));
        if let Some(sql) = sql { out.push(Case::new(format!("generated stored={stored}")).ok(sql).ok("INSERT INTO \"t\" (\"k\") VALUES (21)")
            .check("SELECT name, hidden FROM pragma_table_xinfo('t')", format!("[[\"k\",0],[\"c\",{hidden}]]")).check("SELECT \"c\" FROM \"t\"", "[[42]]")); }
    }
    // ---- 3. tables with table-level constraints and foreign keys, subsets of elements, declaration order kept
    for mask in 0..32u32 {
        let (pk, uq, fk1, fk2, chk) = (mask & 1 != 0, mask & 2 != 0, mask & 4 != 0, mask & 8 != 0, mask & 16 != 0);
        let sql = run(move || {
            let mut t = Table::create();
            t.table(a("t")).if_not_exists();
            if chk { t.check(Expr::col(a("x")).lt(100)); }
            t.col(ColumnDef::new(a("x")).integer().not_null()).col(ColumnDef::new(a("y")).string_len(20).default("d")).col(ColumnDef::new(a("z")).double());
            if fk2 { t.foreign_key(ForeignKey::create().from(a("t"), (a("y"), a("z"))).to(a("q"), (a("g"), a("h"))).on_update(ForeignKeyAction::SetDefault)); }
            if pk { t.primary_key(Index::create().col(a("x")).col((a("y"), IndexOrder::Desc))); }
            if fk1 { t.foreign_key(ForeignKey::create().name("fk1").from(a("t"), a("x")).to(a("p"), a("id")).on_delete(ForeignKeyAction::Cascade).on_update(ForeignKeyAction::Restrict)); }
            if uq { t.index(Index::create().unique().name("uq").col(a("z")).col(a("x"))); }
            t.to_string(SqliteQueryBuilder)
        });
        let label = format!("table mask={mask}");
        let Some(sql) = sql else { out.push(Case::new(label).fails("-- the renderer refused a table SQLite can hold")); continue };
        let mut c = Case::new(label).ok("CREATE TABLE \"p\" (\"id\" integer PRIMARY KEY)").ok("CREATE TABLE \"q\" (\"g\" text, \"h\" real, UNIQUE (\"g\", \"h\"))").ok(sql)
            .check("SELECT name, \"notnull\", dflt_value, pk FROM pragma_table_xinfo('t')", format!("[[\"x\",1,null,{}],[\"y\",0,\"'d'\",{}],[\"z\",0,null,0]]", if pk { 1 } else { 0 }, if pk { 2 } else { 0 }));
        // foreign keys: (table, from, to, on_update, on_delete) in id / seq order (the engine numbers the LAST declared key 0)
        let mut fks: Vec<String> = vec![];
        if fk1 { fks.push(r#"["p","x","id","RESTRICT","CASCADE"]"#.into()); }
        if fk2 { fks.push(r#"["q","y","g","SET DEFAULT","NO ACTION"]"#.into()); fks.push(r#"["q","z","h","SET DEFAULT","NO ACTION"]"#.into()); }
        c = c.check("SELECT \"table\", \"from\", \"to\", on_update, on_delete FROM pragma_foreign_key_list('t') ORDER BY \"table\", seq", format!("[{}]", fks.join(",")));
        let mut idx: Vec<String> = vec![];
        if pk { idx.push(r#"["pk","x",0],["pk","y",1]"#.into()); }
        if uq { idx.push(r#"["u","z",0],["u","x",0]"#.into()); }
        c = c.check("SELECT l.origin, x.name, x.\"desc\" FROM pragma_index_list('t') l, pragma_index_xinfo(l.name) x WHERE x.key = 1 ORDER BY l.origin, x.seqno", format!("[{}]", idx.join(",")));
        if chk { c = c.fails("INSERT INTO \"t\" (\"x\", \"y\", \"z\") VALUES (100, 'v', 1.5)"); }
        out.push(c);
    }
    // ---- 4. CREATE / DROP INDEX
    for mask in 0..16u32 {
        let (uq, ine, desc, part) = (mask & 1 != 0, mask & 2 != 0, mask & 4 != 0, mask & 8 != 0);
        let sql = run(move || {
            let mut i = Index::create();
            if part { i.and_where(Expr::col(a("x")).gt(3)); }
            if desc { i.col((a("y"), IndexOrder::Desc)); } else { i.col(a("y")); }
            i.name("i1").table(a("t")).col((a("x"), IndexOrder::Asc));
            if uq { i.unique(); }
            if ine { i.if_not_exists(); }
            i.to_string(SqliteQueryBuilder)
        });
        let label = format!("index mask={mask}");
        let Some(sql) = sql else { out.push(Case::new(label).fails("-- the renderer refused an index SQLite can hold")); continue };
        let drop = Index::drop().name("i1").table(a("t")).if_exists().to_string(SqliteQueryBuilder);
        let c = Case::new(label).ok("CREATE TABLE \"t\" (\"x\" integer, \"y\" text)").ok(sql.clone())
            .check("SELECT name, \"unique\", origin, partial FROM pragma_index_list('t')", format!("[[\"i1\",{},\"c\",{}]]", if uq { 1 } else { 0 }, if part { 1 } else { 0 }))
            .check("SELECT name, \"desc\" FROM pragma_index_xinfo('i1') WHERE key = 1 ORDER BY seqno", format!("[[\"y\",{}],[\"x\",0]]", if desc { 1 } else { 0 }));
        let c = if part { c.check("SELECT sql LIKE '%WHERE \"x\" > 3' FROM sqlite_master WHERE name = 'i1'", "[[1]]") } else { c };
        out.push(if ine { c.ok(sql) } else { c.fails(sql) });
        out.push(Case::new(format!("index drop mask={mask}")).ok("CREATE TABLE \"t\" (\"x\" integer, \"y\" text)").ok("CREATE INDEX \"i1\" ON \"t\" (\"x\")").ok(drop.clone()).ok(drop)
            .check("SELECT count(*) FROM pragma_index_list('t')", "[[0]]"));
    }
    // builder state: an index handed over with .take() keeps its partial predicate and flags; a foreign key declared through the
    // from_tbl / from_col / to_tbl / to_col wrappers, referenced side FIRST, keeps both sides
    let idx = run(|| { let mut i = Index::create(); i.name("i1").table(a("t")).col(a("x")).unique().and_where(Expr::col(a("x")).gt(3)); let t = i.take(); t.to_string(SqliteQueryBuilder) });
    if let Some(sql) = idx { out.push(Case::new("index take keeps predicate").ok("CREATE TABLE \"t\" (\"x\" integer, \"y\" text)").ok(sql)
        .check("SELECT name, \"unique\", partial FROM pragma_index_list('t')", r#"[["i1",1,1]]"#)); }
    let fk = run(|| { let mut f = ForeignKey::create(); f.to_tbl(a("p")).to_col(a("id")).from_tbl(a("t")).from_col(a("x")).on_delete(ForeignKeyAction::SetDefault);
        Table::create().table(a("t")).col(ColumnDef::new(a("x")).integer().default(1)).foreign_key(&mut f).to_string(SqliteQueryBuilder) });
    if let Some(sql) = fk { out.push(Case::new("foreign key wrappers, referenced side first").ok("CREATE TABLE \"p\" (\"id\" integer PRIMARY KEY)").ok(sql)
        .check("SELECT \"table\", \"from\", \"to\", on_update, on_delete FROM pragma_foreign_key_list('t')", r#"[["p","x","id","NO ACTION","SET DEFAULT"]]"#)); }
    for (k, act, txt) in [(0, ForeignKeyAction::Restrict, "RESTRICT"), (1, ForeignKeyAction::Cascade, "CASCADE"), (2, ForeignKeyAction::SetNull, "SET NULL"), (3, ForeignKeyAction::NoAction, "NO ACTION"), (4, ForeignKeyAction::SetDefault, "SET DEFAULT")] {
        let sql = run(move || Table::create().table(a("t")).col(ColumnDef::new(a("x")).integer()).foreign_key(ForeignKey::create().from(a("t"), a("x")).to(a("p"), a("id")).on_delete(act.clone()).on_update(act)).to_string(SqliteQueryBuilder));
        if let Some(sql) = sql { out.push(Case::new(format!("foreign key action {k}")).ok("CREATE TABLE \"p\" (\"id\" integer PRIMARY KEY)").ok(sql)
            .check("SELECT on_update, on_delete FROM pragma_foreign_key_list('t')", format!("[[\"{txt}\",\"{txt}\"]]"))); }
    }
    // an index on a schema-qualified table is not SQLite syntax (`CREATE INDEX i ON s.t`): refused - or, if rendered, the engine must take it
    let q = run(|| Index::create().name("i1").table((a("main"), a("t"))).col(a("x")).to_string(SqliteQueryBuilder));
    if let Some(sql) = q { out.push(Case::new("index on a schema-qualified table").ok("CREATE TABLE \"t\" (\"x\" integer, \"y\" text)").ok(sql).check("SELECT name FROM pragma_index_list('t')", r#"[["i1"]]"#)); }
    // ---- 5. ALTER TABLE (one action per statement), RENAME TO, DROP TABLE
    let base = "CREATE TABLE \"t\" (\"x\" integer, \"y\" text)";
    let add = run(|| Table::alter().table(a("t")).add_column(ColumnDef::new(a("n")).string_len(10).not_null().default("v")).to_string(SqliteQueryBuilder));
    if let Some(s) = add { out.push(Case::new("alter add column").ok(base).ok(s).check("SELECT name, \"notnull\", dflt_value FROM pragma_table_xinfo('t')", r#"[["x",0,null],["y",0,null],["n",1,"'v'"]]"#)); }
    // one action per statement: a second option is refused (panic) - or, if rendered, must not be silently dropped
    let two = run(|| Table::alter().table(a("t")).add_column(ColumnDef::new(a("n")).integer()).add_column(ColumnDef::new(a("m")).integer()).to_string(SqliteQueryBuilder));
    if let Some(s) = two { out.push(Case::new("alter two options").ok(base).ok(s).check("SELECT name FROM pragma_table_xinfo('t')", r#"[["x"],["y"],["n"],["m"]]"#)); }
    let ren = run(|| Table::alter().table(a("t")).rename_column(a("y"), a("w")).to_string(SqliteQueryBuilder));
    if let Some(s) = ren { out.push(Case::new("alter rename column").ok(base).ok(s).check("SELECT name FROM pragma_table_xinfo('t')", r#"[["x"],["w"]]"#)); }
    let drp = run(|| Table::alter().table(a("t")).drop_column(a("y")).to_string(SqliteQueryBuilder));
    if let Some(s) = drp { out.push(Case::new("alter drop column").ok(base).ok(s).check("SELECT name FROM pragma_table_xinfo('t')", r#"[["x"]]"#)); }
    let rn = run(|| Table::rename().table(a("t"), a("u")).to_string(SqliteQueryBuilder));
    if let Some(s) = rn { out.push(Case::new("rename table").ok(base).ok(s).check("SELECT name FROM sqlite_master WHERE type = 'table'", r#"[["u"]]"#)); }
    let dt = run(|| Table::drop().table(a("t")).if_exists().to_string(SqliteQueryBuilder));
    if let Some(s) = dt { out.push(Case::new("drop table").ok(base).ok(s.clone()).ok(s).check("SELECT count(*) FROM sqlite_master", "[[0]]")); }
    let tmp = run(|| Table::create().table(a("t")).temporary().col(ColumnDef::new(a("x")).integer()).to_string(SqliteQueryBuilder));
    if let Some(s) = tmp { out.push(Case::new("temporary table").ok(s).check("SELECT name FROM sqlite_temp_master", r#"[["t"]]"#).check("SELECT count(*) FROM sqlite_master", "[[0]]")); }
    let _ = b;
    out
}
