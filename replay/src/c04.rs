//! C04 witness search: identifier positions of real statements vs the quoted-identifier lexer.
use crate::lexers::quoted_ident;
use crate::util::Witness;
use sea_query::*;

/// decode every quoted identifier token (quote char q) of `sql`, skipping '...' string literals
fn idents(sql: &str, q: char) -> Vec<String> {
    let t: Vec<char> = sql.chars().collect();
    let (mut i, mut out) = (0, vec![]);
    while i < t.len() {
        if t[i] == '\'' {
            i += 1;
            while i < t.len() { if t[i] == '\\' { i += 2; continue; } if t[i] == '\'' { if t.get(i + 1) == Some(&'\'') { i += 2; continue; } break; } i += 1; }
            i += 1;
        } else if t[i] == q {
            match quoted_ident(&t[i..], q) { Some((name, n)) => { out.push(name); i += n; } None => { out.push("<unterminated>".into()); break; } }
        } else { i += 1; }
    }
    out
}

/// an Iden whose `unquoted` emits its name one character at a time (e.g. a lower-casing implementor)
#[derive(Clone)]
struct CharWise(String);
impl Iden for CharWise {
    fn unquoted(&self, s: &mut dyn std::fmt::Write) { for c in self.0.chars() { s.write_char(c).unwrap(); } }
}
/// an Iden that writes a prefix character and the name through one format call
#[derive(Clone)]
struct Prefixed(String);
impl Iden for Prefixed {
    fn unquoted(&self, s: &mut dyn std::fmt::Write) { let mut it = self.0.chars(); if let Some(c) = it.next() { write!(s, "{}{}", c, it.as_str()).unwrap(); } }
}

fn stmts(name: &str) -> Vec<(&'static str, [String; 3])> {
    let a = || Alias::new("t");
    let c = || Alias::new("c");
    let mut v: Vec<(&'static str, [String; 3])> = vec![];
    macro_rules! schema { ($label:expr, $s:expr) => {{ let s = $s; v.push(($label, [s.to_string(MysqlQueryBuilder), s.to_string(PostgresQueryBuilder), s.to_string(SqliteQueryBuilder)])); }}; }
    macro_rules! schema_ms { ($label:expr, $s:expr) => {{ let s = $s; v.push(($label, [s.to_string(MysqlQueryBuilder), s.to_string(PostgresQueryBuilder), String::new()])); }}; }
    macro_rules! query { ($label:expr, $s:expr) => {{ let s = $s; v.push(($label, [s.to_string(MysqlQueryBuilder), s.to_string(PostgresQueryBuilder), s.to_string(SqliteQueryBuilder)])); }}; }
    schema!("index create name", Index::create().name(name).table(a()).col(c()).to_owned());
    schema_ms!("index drop name", Index::drop().name(name).table(a()).to_owned());
    schema!("table-level index name", Table::create().table(a()).col(ColumnDef::new(c()).integer()).index(Index::create().name(name).col(c()).unique()).to_owned());
    schema_ms!("foreign key create name", ForeignKey::create().name(name).from(a(), c()).to(Alias::new("u"), c()).to_owned());
    schema_ms!("foreign key drop name", ForeignKey::drop().name(name).table(a()).to_owned());
    query!("column", Query::select().column(Alias::new(name)).from(a()).to_owned());
    query!("column (char-wise Iden)", Query::select().column(CharWise(name.to_string())).from(a()).to_owned());
    query!("table (prefixed Iden)", Query::select().column(c()).from(Prefixed(name.to_string())).to_owned());
    schema!("table drop (char-wise Iden)", Table::drop().table(CharWise(name.to_string())).to_owned());
    query!("table", Query::select().column(c()).from(Alias::new(name)).to_owned());
    query!("schema.table alias", Query::select().column(c()).from_as((Alias::new(name), a()), Alias::new(name)).to_owned());
    query!("expr alias", Query::select().expr_as(Expr::col(c()), Alias::new(name)).from(a()).to_owned());
    query!("cte name", Query::select().column(c()).from(a()).to_owned().with(Query::with().cte(CommonTableExpression::new().query(Query::select().column(c()).from(a()).to_owned()).table_name(Alias::new(name)).to_owned()).to_owned()));
    v.push(("enum cast type", [String::new(), Query::select().expr(Expr::val("x").as_enum(Alias::new(name))).to_owned().to_string(PostgresQueryBuilder), String::new()]));
    v.push(("on conflict excluded", [String::new(), Query::insert().into_table(a()).columns([Alias::new(name)]).values_panic([1.into()]).on_conflict(OnConflict::column(Alias::new(name)).update_column(Alias::new(name)).to_owned()).to_owned().to_string(PostgresQueryBuilder), String::new()]));
    v
}

pub fn check_one(name: &str) -> Option<Witness> {
    for (label, sqls) in stmts(name) {
        for (k, sql) in sqls.iter().enumerate() {
            if sql.is_empty() { continue; }
            let q = if k == 0 { '`' } else { '"' };
            let ids = idents(sql, q);
            if !ids.iter().any(|i| i == name) {
                return Some(Witness { property: "C04", input: name.to_string(), observed: format!("{label} [{}]: {sql}  -- identifier tokens decode to {ids:?}", ["mysql", "postgres", "sqlite"][k]), expected: format!("an identifier token decoding to {name:?}") });
            }
        }
    }
    None
}

pub fn search(_obl: &str) -> Vec<Witness> {
    std::panic::set_hook(Box::new(|_| {}));
    let mut found = vec![];
    let alpha = ['a', '"', '`', ' ', ';', '\'', 'é', '\u{122}', '\u{160}', '\u{2022}'];
    crate::util::strings(&alpha, 3, |s| {
        if s.is_empty() { return false; }
        if let Ok(Some(w)) = std::panic::catch_unwind(|| check_one(s)) { found.push(w); }
        found.len() >= 8
    });
    found
}
