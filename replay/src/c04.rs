//! C04 witness search: identifier positions of real statements vs the quoted-identifier lexer.
use crate::lexers::quoted_ident;
use crate::util::Witness;
use sea_query::*;

/// decode every quoted identifier token (quote char q) of `sql`, skipping '...' string literals
fn idents(sql: &str, q: char) -> Vec<String> {
    let t: Vec<char> = sql.chars().collect();
    let (mut i, mut out) = (0, vec![]);
    while i < t.len() {
        if t[i] == '\'' {
            i += 1;
            while i < t.len() { if t[i] == '\\' { i += 2; continue; } if t[i] == '\'' { if t.get(i + 1) == Some(&'\'') { i += 2; continue; } break; } i += 1; }
            i += 1;
        } else if t[i] == q {
            match quoted_ident(&t[i..], q) { Some((name, n)) => { out.push(name); i += n; } None => { out.push("<unterminated>".into()); break; } }
        } else { i += 1; }
    }
    out
}

/// an Iden whose `unquoted` emits its name one character at a time (e.g. a lower-casing implementor)
#[derive(Clone)]
struct CharWise(String);
impl Iden for CharWise {
    fn unquoted(&self, s: &mut dyn std::fmt::Write) { for c in self.0.chars() { s.write_char(c).unwrap(); } }
}
/// an Iden that writes a prefix character and the name through one format call
#[derive(Clone)]
struct Prefixed(String);
impl Iden for Prefixed {
    fn unquoted(&self, s: &mut dyn std::fmt::Write) { let mut it = self.0.chars(); if let Some(c) = it.next() { write!(s, "{}{}", c, it.as_str()).unwrap(); } }
}

fn stmts(name: &str) -> Vec<(&'static str, [String; 3])> {
    let a = || Alias::new("t");
    let c = || Alias::new("c");
    let mut v: Vec<(&'static str, [String; 3])> = vec![];
    macro_rules! schema { ($label:expr, $s:expr) => {{ let s = $s; v.push(($label, [s.to_string(MysqlQueryBuilder), s.to_string(PostgresQueryBuilder), s.to_string(SqliteQueryBuilder)])); }}; }
    macro_rules! schema_ms { ($label:expr, $s:expr) => {{ let s = $s; v.push(($label, [s.to_string(MysqlQueryBuilder), s.to_string(PostgresQueryBuilder), String::new()])); }}; }
    macro_rules! query { ($label:expr, $s:expr) => {{ let s = $s; v.push(($label, [s.to_string(MysqlQueryBuilder), s.to_string(PostgresQueryBuilder), s.to_string(SqliteQueryBuilder)])); }}; }
    schema!("index create name", Index::create().name(name).table(a()).col(c()).to_owned());
    schema_ms!("index drop name", Index::drop().name(name).table(a()).to_owned());
    schema!("table-level index name", Table::create().table(a()).col(ColumnDef::new(c()).integer()).index(Index::create().name(name).col(c()).unique()).to_owned());
    schema_ms!("foreign key create name", ForeignKey::create().name(name).from(a(), c()).to(Alias::new("u"), c()).to_owned());
    schema_ms!("foreign key drop name", ForeignKey::drop().name(name).table(a()).to_owned());
    query!("column", Query::select().column(Alias::new(name)).from(a()).to_owned());
    query!("column (char-wise Iden)", Query::select().column(CharWise(name.to_string())).from(a()).to_owned());
    query!("table (prefixed Iden)", Query::select().column(c()).from(Prefixed(name.to_string())).to_owned());
    schema!("table drop (char-wise Iden)", Table::drop().table(CharWise(name.to_string())).to_owned());
    query!("table", Query::select().column(c()).from(Alias::new(name)).to_owned());
    query!("schema.table alias", Query::select().column(c()).from_as((Alias::new(name), a()), Alias::new(name)).to_owned());
    query!("expr alias", Query::select().expr_as(Expr::col(c()), Alias::new(name)).from(a()).to_owned());
    query!("cte name", Query::select().column(c()).from(a()).to_owned().with(Query::with().cte(CommonTableExpression::new().query(Query::select().column(c()).from(a()).to_owned()).table_name(Alias::new(name)).to_owned()).to_owned()));
    // --- positions added after seeded changes C04-4 (ALTER TABLE .. DROP FOREIGN KEY escaped twice): every builder that takes a name.
    // Backends that do not support a form panic; `each!` renders per backend under catch_unwind and skips those.
    macro_rules! each { ($label:expr, $s:expr) => {{ let s = $s;
        let r = [std::panic::catch_unwind(std::panic::AssertUnwindSafe(|| s.to_string(MysqlQueryBuilder))).unwrap_or_default(),
                 std::panic::catch_unwind(std::panic::AssertUnwindSafe(|| s.to_string(PostgresQueryBuilder))).unwrap_or_default(),
                 std::panic::catch_unwind(std::panic::AssertUnwindSafe(|| s.to_string(SqliteQueryBuilder))).unwrap_or_default()];
        v.push(($label, r)); }}; }
    let n = || Alias::new(name);
    let u = || Alias::new("u");
    each!("alter add column", Table::alter().table(a()).add_column(ColumnDef::new(n()).integer()).to_owned());
    each!("alter modify column", Table::alter().table(a()).modify_column(ColumnDef::new(n()).integer()).to_owned());
    each!("alter rename column (from)", Table::alter().table(a()).rename_column(n(), c()).to_owned());
    each!("alter rename column (to)", Table::alter().table(a()).rename_column(c(), n()).to_owned());
    each!("alter drop column", Table::alter().table(a()).drop_column(n()).to_owned());
    each!("alter table name", Table::alter().table(n()).drop_column(c()).to_owned());
    each!("alter add foreign key name", Table::alter().table(a()).add_foreign_key(TableForeignKey::new().name(name).from_tbl(a()).from_col(c()).to_tbl(u()).to_col(c())).to_owned());
    each!("alter add foreign key columns", Table::alter().table(a()).add_foreign_key(TableForeignKey::new().name("fk").from_tbl(a()).from_col(n()).to_tbl(n()).to_col(n())).to_owned());
    each!("alter drop foreign key", Table::alter().table(a()).drop_foreign_key(n()).to_owned());
    each!("rename table (from)", Table::rename().table(n(), a()).to_owned());
    each!("rename table (to)", Table::rename().table(a(), n()).to_owned());
    each!("truncate table", Table::truncate().table(n()).to_owned());
    each!("create table name + column", Table::create().table(n()).col(ColumnDef::new(n()).integer()).to_owned());
    each!("create table foreign key", Table::create().table(a()).col(ColumnDef::new(c()).integer()).foreign_key(ForeignKey::create().name(name).from(a(), n()).to(n(), n())).to_owned());
    each!("create table primary key", Table::create().table(a()).col(ColumnDef::new(c()).integer()).primary_key(Index::create().name(name).col(n())).to_owned());
    each!("index column / table", Index::create().name("i").table(n()).col(n()).to_owned());
    v.push(("index drop table", [Index::drop().name("i").table(n()).to_string(MysqlQueryBuilder), String::new(), String::new()]));   // DROP INDEX names no table on Postgres / SQLite
    each!("foreign key create columns", ForeignKey::create().name("fk").from(n(), n()).to(n(), n()).to_owned());
    each!("foreign key drop table", ForeignKey::drop().name("fk").table(n()).to_owned());
    each!("qualified column", Query::select().column((n(), n())).from(a()).to_owned());
    each!("schema.table.column", Query::select().column((n(), n(), n())).from((n(), n())).to_owned());
    each!("table.*", Query::select().column((n(), sea_query::Asterisk)).from(a()).to_owned());
    each!("join table + alias", Query::select().column(c()).from(a()).join_as(JoinType::InnerJoin, n(), n(), Expr::col((n(), c())).eq(Expr::col((a(), c())))).to_owned());
    each!("order by / group by column", Query::select().column(c()).from(a()).group_by_col(n()).order_by(n(), Order::Asc).order_by((n(), n()), Order::Desc).to_owned());
    each!("subquery alias", Query::select().column(c()).from_subquery(Query::select().column(c()).from(a()).to_owned(), n()).to_owned());
    each!("window name", Query::select().column(c()).from(a()).expr_window_name_as(Expr::col(c()), n(), n()).window(n(), WindowStatement::partition_by(n())).to_owned());
    each!("insert table + columns", Query::insert().into_table(n()).columns([n()]).values_panic([1.into()]).to_owned());
    each!("insert returning", Query::insert().into_table(a()).columns([c()]).values_panic([1.into()]).returning_col(n()).to_owned());
    each!("on conflict columns", Query::insert().into_table(a()).columns([c()]).values_panic([1.into()]).on_conflict(OnConflict::columns([n()]).update_columns([n()]).to_owned()).to_owned());
    each!("update table + column", Query::update().table(n()).value(n(), 1).and_where(Expr::col(n()).eq(1)).to_owned());
    each!("delete table", Query::delete().from_table(n()).and_where(Expr::col((n(), n())).eq(1)).to_owned());
    each!("cte columns", Query::select().column(c()).from(a()).to_owned().with(Query::with().cte(CommonTableExpression::new().query(Query::select().column(c()).from(a()).to_owned()).table_name(n()).column(n()).to_owned()).to_owned()));
    each!("lock tables", Query::select().column(c()).from(a()).lock_with_tables(LockType::Update, [n()]).to_owned());
    {
        use sea_query::extension::postgres::Type;
        let pg = |s: String| [String::new(), s, String::new()];
        v.push(("pg type create", pg(Type::create().as_enum(n()).values([Alias::new("x")]).to_string(PostgresQueryBuilder))));
        v.push(("pg type drop", pg(Type::drop().name(n()).to_string(PostgresQueryBuilder))));
        v.push(("pg type alter name", pg(Type::alter().name(n()).add_value(Alias::new("x")).to_string(PostgresQueryBuilder))));
        v.push(("pg type rename to", pg(Type::alter().name(a()).rename_to(n()).to_string(PostgresQueryBuilder))));
    }
    // Func::cast_as_quoted takes the quote to use: the backend's own
    v.push(("cast_as_quoted type", [Query::select().expr(Func::cast_as_quoted("x", n(), Quote::new(b'`'))).to_owned().to_string(MysqlQueryBuilder),
                                    Query::select().expr(Func::cast_as_quoted("x", n(), Quote::new(b'"'))).to_owned().to_string(PostgresQueryBuilder),
                                    Query::select().expr(Func::cast_as_quoted("x", n(), Quote::new(b'"'))).to_owned().to_string(SqliteQueryBuilder)]));
    v.push(("enum cast type", [String::new(), Query::select().expr(Expr::val("x").as_enum(Alias::new(name))).to_owned().to_string(PostgresQueryBuilder), String::new()]));
    // the array form `CAST(x AS "name"[])`: the element type's name is the identifier, `[]` stays outside the quotes
    v.push(("enum array cast type", [String::new(), Query::select().expr(Expr::val("x").as_enum(Alias::new(format!("{name}[]")))).to_owned().to_string(PostgresQueryBuilder), String::new()]));
    v.push(("on conflict excluded", [String::new(), Query::insert().into_table(a()).columns([Alias::new(name)]).values_panic([1.into()]).on_conflict(OnConflict::column(Alias::new(name)).update_column(Alias::new(name)).to_owned()).to_owned().to_string(PostgresQueryBuilder), String::new()]));
    v
}


// ---- #[derive(Iden)]: names fixed at compile time.  The macro overrides Iden::prepare with a FAST PATH (name written verbatim between the
// quotes) when every name of the type passes its plain-name test; one enum / unit struct per hostile character so that a test that wrongly
// accepts that character sends the whole type down the fast path
mod derived {
    use sea_query::Iden;
    #[derive(Iden)] pub enum Plain { Table, Id, #[iden = "_ok9"] Under }
    #[derive(Iden)] pub enum DQ { Table, #[iden = "a\"b"] A, #[iden = "\""] B }
    #[derive(Iden)] pub enum BT { Table, #[iden = "a`b"] A, #[iden = "`"] B }
    #[derive(Iden)] pub enum SP { Table, #[iden = "a b;"] A, #[iden = "9'x"] B }
    #[derive(Iden)] pub struct UnitPlain;
    #[derive(Iden)] #[iden = "u\"q"] pub struct UnitDQ;
    #[derive(Iden)] #[iden = "u`q"] pub struct UnitBT;
}
fn derived_check() -> Vec<(String, Witness)> {
    use derived::*;
    let mut out = vec![];
    let mut one = |label: &str, want: &str, sqls: [String; 3]| {
        for (k, sql) in sqls.iter().enumerate() {
            let q = if k == 0 { '`' } else { '"' };
            let ids = idents(sql, q);
            if ids != vec![want.to_string()] {
                let be = ["mysql", "postgres", "sqlite"][k];
                out.push((format!("derive {label}/{be}"), Witness { property: "C04", input: want.to_string(), observed: format!("#[derive(Iden)] {label} [{be}]: {sql}  -- identifier tokens decode to {ids:?}"), expected: format!("1 identifier token decoding to {want:?}") }));
            }
        }
    };
    // expected: the name the implementor itself spells (Iden::to_string = unquoted); the renames below give it hostile characters
    macro_rules! col { ($label:expr, $want:expr, $v:expr) => { let w: String = Iden::to_string(&$v); if !$want.is_empty() { assert_eq!(w, $want); } one($label, &w, [Query::select().column($v).to_owned().to_string(MysqlQueryBuilder), Query::select().column($v).to_owned().to_string(PostgresQueryBuilder), Query::select().column($v).to_owned().to_string(SqliteQueryBuilder)]) } }
    col!("Plain::Table", "", Plain::Table); col!("Plain::Id", "id", Plain::Id); col!("Plain::Under", "_ok9", Plain::Under);
    col!("DQ::Table", "", DQ::Table); col!("DQ::A", "a\"b", DQ::A); col!("DQ::B", "\"", DQ::B);
    col!("BT::Table", "", BT::Table); col!("BT::A", "a`b", BT::A); col!("BT::B", "`", BT::B);
    col!("SP::Table", "", SP::Table); col!("SP::A", "a b;", SP::A); col!("SP::B", "9'x", SP::B);
    col!("UnitPlain", "", UnitPlain); col!("UnitDQ", "u\"q", UnitDQ); col!("UnitBT", "u`q", UnitBT);
    out
}

/// every (position, backend) at which `name` does not come back as one identifier token
pub fn check_all(name: &str) -> Vec<(String, Witness)> {
    // forms a dialect does not have (the builder drops the clause by design): not identifier positions there
    const SKIP: [(&str, usize); 2] = [("insert returning", 0), ("lock tables", 2)];
    let mut out = vec![];
    // the same statements with a harmless name: how many identifier tokens the name must come back as (a position that renders the
    // name twice - `"n" = "excluded"."n"` - must decode to it twice: one good occurrence must not mask a bad one)
    const PLAIN: &str = "zq9";
    let reference = stmts(PLAIN);
    for ((label, sqls), (_, ref_sqls)) in stmts(name).into_iter().zip(reference.into_iter()) {
        for (k, sql) in sqls.iter().enumerate() {
            if sql.is_empty() || SKIP.contains(&(label, k)) { continue; }
            let q = if k == 0 { '`' } else { '"' };
            let ids = idents(sql, q);
            let want = idents(&ref_sqls[k], q).iter().filter(|i| *i == PLAIN).count().max(1);
            if ids.iter().filter(|i| *i == name).count() != want {
                let be = ["mysql", "postgres", "sqlite"][k];
                out.push((format!("{label}/{be}"), Witness { property: "C04", input: name.to_string(), observed: format!("{label} [{be}]: {sql}  -- identifier tokens decode to {ids:?}"), expected: format!("{want} identifier token(s) decoding to {name:?}") }));
            }
        }
    }
    out
}

pub fn check_one(name: &str) -> Option<Witness> { check_all(name).into_iter().next().map(|x| x.1) }

pub fn search(_obl: &str) -> Vec<Witness> {
    std::panic::set_hook(Box::new(|_| {}));
    let mut found: Vec<Witness> = vec![];
    if let Ok(ws) = std::panic::catch_unwind(derived_check) { for (_, w) in ws { found.push(w); } }
    let mut per_pos: std::collections::HashMap<String, usize> = Default::default();
    let alpha = ['a', '"', '`', ' ', ';', '\'', 'é', '\u{122}', '\u{160}', '\u{2022}'];
    crate::util::strings(&alpha, if crate::util::deep() { 4 } else { 3 }, |s| {
        if s.is_empty() { return false; }
        if let Ok(ws) = std::panic::catch_unwind(|| check_all(s)) {
            for (pos, w) in ws {
                // at most 2 witnesses per (position, backend) so that one failing position cannot hide another
                let c = per_pos.entry(pos).or_insert(0);
                if *c < 2 { *c += 1; found.push(w); }
            }
        }
        found.len() >= 40
    });
    found
}
