//! C01 / C02 witness search: a corpus of nested statements on the three real backends.
//! C01: #placeholders outside quoted text == #values, Postgres numbers are 1..n ascending, `?` elsewhere.
//! C02: to_string == build with the i-th placeholder replaced by value_to_string(values[i]); all entry points agree.
use crate::util::Witness;
use sea_query::*;

fn a(s: &str) -> Alias { Alias::new(s) }

/// placeholders of `sql` outside quoted text: (position, number or 0)
fn placeholders(sql: &str, numbered: bool) -> Vec<(usize, usize, usize)> { placeholders_d(sql, numbered, if numbered { 2 } else { 1 }) }
/// `bs`: backslash escapes inside '..' literals: 0 never (SQLite), 1 always (MySQL), 2 only in E'..' (Postgres)
fn placeholders_d(sql: &str, numbered: bool, bs: u8) -> Vec<(usize, usize, usize)> {
    let t: Vec<char> = sql.chars().collect();
    let (mut i, mut out) = (0, vec![]);
    while i < t.len() {
        let c = t[i];
        if c == '\'' || c == '"' || c == '`' {
            let q = c;
            let esc = q == '\'' && (bs == 1 || (bs == 2 && i > 0 && t[i - 1] == 'E'));
            i += 1;
            while i < t.len() { if t[i] == '\\' && esc { i += 2; continue; } if t[i] == q { if t.get(i + 1) == Some(&q) { i += 2; continue; } break; } i += 1; }
            i += 1;
        } else if !numbered && c == '?' { out.push((i, i + 1, 0)); i += 1; }
        else if numbered && c == '$' {
            let mut j = i + 1; let mut n = 0usize;
            while j < t.len() && t[j].is_ascii_digit() { n = n * 10 + t[j].to_digit(10).unwrap() as usize; j += 1; }
            if j > i + 1 { out.push((i, j, n)); }
            i = j.max(i + 1);
        } else { i += 1; }
    }
    out
}

pub fn corpus() -> Vec<(String, Box<dyn Fn(&dyn QueryBuilder) -> (String, Values, String)>)> {
    let mut v: Vec<(String, Box<dyn Fn(&dyn QueryBuilder) -> (String, Values, String)>)> = vec![];
    macro_rules! add { ($label:expr, $s:expr) => {{ let s = $s; v.push(($label.to_string(), Box::new(move |qb: &dyn QueryBuilder| { let (sql, vals) = s.build_any(qb); let mut inl = String::new(); s.build_collect_any_into(qb, &mut inl); (sql, vals, inl) }))); }}; }
    let sub = || Query::select().column(a("x")).from(a("u")).and_where(Expr::col(a("x")).gt(7)).limit(3).to_owned();
    let base = |k: u32| {
        let mut s = Query::select();
        s.column(a("c")).from(a("t"));
        if k & 1 != 0 { s.and_where(Expr::col(a("c")).eq("it's ?")); }
        if k & 2 != 0 { s.and_where(Expr::col(a("d")).is_in([1, 2, 3])); }
        if k & 4 != 0 { s.and_where(Expr::col(a("e")).in_subquery(sub())); }
        if k & 8 != 0 { s.limit(10); }
        if k & 16 != 0 { s.offset(20); }
        if k & 32 != 0 { s.expr(Expr::case(Expr::col(a("c")).eq(1), "one").finally("many")); }
        if k & 64 != 0 { s.union(UnionType::All, sub()); }
        if k & 128 != 0 { s.and_having(Expr::col(a("c")).max().lt(99.5)); s.group_by_col(a("c")); }
        if k & 256 != 0 { s.expr(Expr::cust_with_values("? + ?", [4, 5])); }
        s
    };
    for k in 0..512u32 { add!(format!("select#{k}"), base(k)); }
    for k in [0u32, 8, 24] {
        let mut s = base(k);
        s.order_by_expr(Expr::expr(Expr::col(a("c")).if_null("none")).into(), Order::Field(Values(vec!["x".into(), "y".into(), "z".into()])));
        add!(format!("order-by-field#{k}"), s);
    }
    add!("many values", { let mut s = Query::select(); s.column(a("c")).from(a("t")).and_where(Expr::col(a("d")).is_in([1, 2, 3, 4, 5, 6, 7, 8, 9, 10, 11, 12, 13])); s });
    add!("control characters", { let mut s = Query::select(); s.column(a("c")).from(a("t")).and_where(Expr::col(a("c")).eq("line\nbreak\ttab")).and_where(Expr::col(a("d")).eq("cr\rbs\u{8}")); s });
    add!("values table", { let mut s = Query::select(); s.column(a("c")).from_values([(1, "it's"), (2, "back\\slash")], a("x")); s });
    add!("bytes with zero nibbles", { let mut s = Query::select(); s.column(a("c")).from(a("t")).and_where(Expr::col(a("b")).eq(vec![0x0Au8, 0x00, 0x10, 0x7F, 0x0B])); s });
    add!("crlf text", { let mut s = Query::select(); s.column(a("c")).from(a("t")).and_where(Expr::col(a("c")).eq("dos line\r\nnext\r\n")).and_where(Expr::col(a("d")).eq('\r')); s });
    add!("values table bytes", { let mut s = Query::select(); s.column(a("c")).from_values([(1, vec![0xABu8, 0xCD])], a("x")); s });
    add!("insert rows", Query::insert().into_table(a("t")).columns([a("a"), a("b")]).values_panic([1.into(), "x".into()]).values_panic([2.into(), Value::String(None).into()]).to_owned());
    add!("insert select", Query::insert().into_table(a("t")).columns([a("x")]).select_from(sub()).unwrap().to_owned());
    add!("insert on conflict", Query::insert().into_table(a("t")).columns([a("a")]).values_panic([1.into()]).on_conflict(OnConflict::column(a("a")).value(a("a"), 5).to_owned()).to_owned());
    add!("update", Query::update().table(a("t")).value(a("a"), 1).value(a("b"), "s").and_where(Expr::col(a("c")).between(3, 9)).limit(2).to_owned());
    add!("delete", Query::delete().from_table(a("t")).and_where(Expr::col(a("c")).like("a%")).limit(4).to_owned());
    // (a doubled mark `??` / `$$` is a literal mark by design - C11 - and is indistinguishable from a placeholder in the text: outside C01's domain)
    // custom templates whose placeholders touch words, digits and punctuation (both marks; the other dialect's mark is plain text)
    for (i, (tpl, n)) in [("DATE_ADD(?, INTERVAL ?DAY) + ?", 3), ("COALESCE(?,?)", 2), ("(?)", 1), ("?+?-?", 3), ("?x", 1), ("x ?", 1), ("'?' ? \"?\"", 1),
                          ("$1+$2", 2), ("f($2,$1)", 2), ("$1 $1", 1), ("'$1' $1", 1), ("($1)", 1), ("$1;", 1)].into_iter().enumerate() {
        let vals: Vec<Value> = (0..n).map(|k| Value::from(100 + k as i32)).collect();
        add!(format!("custom#{i} {tpl}"), Query::select().expr(Expr::cust_with_values(tpl, vals.clone())).from(a("t")).and_where(Expr::col(a("c")).eq(7)).to_owned());
        add!(format!("custom-in-subquery#{i} {tpl}"), Query::select().column(a("c")).from(a("t")).and_where(Expr::col(a("e")).in_subquery(Query::select().expr(Expr::cust_with_values(tpl, vals.clone())).from(a("u")).to_owned())).and_where(Expr::col(a("c")).eq(7)).to_owned());
    }
    // upsert with both filters, through every spelling of the builder API: the values must come back in clause order
    for (i, oc) in [OnConflict::column(a("a")).target_and_where(Expr::col(a("a")).gt(11)).value(a("b"), 12).action_and_where(Expr::col(a("b")).lt(13)).to_owned(),
                    OnConflict::column(a("a")).target_and_where_option(Some(Expr::col(a("a")).gt(11))).value(a("b"), 12).action_and_where_option(Some(Expr::col(a("b")).lt(13))).to_owned(),
                    OnConflict::column(a("a")).target_cond_where(Cond::all().add(Expr::col(a("a")).gt(11))).value(a("b"), 12).action_cond_where(Cond::all().add(Expr::col(a("b")).lt(13))).to_owned()].into_iter().enumerate() {
        add!(format!("upsert filters#{i} expect-pg=[9,10,11,12,13] expect-my=[9,10,12]"), Query::insert().into_table(a("t")).columns([a("a"), a("b")]).values_panic([9.into(), 10.into()]).on_conflict(oc).to_owned());
    }
    // window frame offsets are bound values: PARTITION BY value, ORDER BY value, then the two offsets, then the rest
    add!("window frame expect-pg=[22,2,3,23] expect-my=[22,2,3,23]", {
        let mut w = WindowStatement::partition_by(a("g"));
        w.order_by_expr(Expr::col(a("x")).add(22).into(), Order::Asc).frame_between(FrameType::Rows, Frame::Preceding(2), Frame::Following(3));
        let mut s = Query::select(); s.expr_window_as(Expr::col(a("x")).sum(), w, a("s")).from(a("t")).and_where(Expr::col(a("c")).eq(23)); s });
    // function builders (Func::*, PgFunc::*): every argument given is bound once, in argument order (a regconfig first)
    {
        use sea_query::extension::postgres::PgFunc;
        let v = |i: i32| Expr::val(i);
        let fns: Vec<(&str, FunctionCall, &str)> = vec![
            ("max", Func::max(v(41)), "41"), ("min", Func::min(v(41)), "41"), ("sum", Func::sum(v(41)), "41"), ("avg", Func::avg(v(41)), "41"), ("abs", Func::abs(v(41)), "41"),
            ("count", Func::count(v(41)), "41"), ("count_distinct", Func::count_distinct(v(41)), "41"), ("char_length", Func::char_length(v(41)), "41"),
            ("greatest", Func::greatest([v(41).into(), v(42).into(), v(43).into()]), "41,42,43"), ("least", Func::least([v(41).into(), v(42).into()]), "41,42"),
            ("if_null", Func::if_null(v(41), v(42)), "41,42"), ("cast_as", Func::cast_as(v(41), a("int")), "41"), ("coalesce", Func::coalesce([v(41).into(), v(42).into(), v(43).into()]), "41,42,43"),
            ("lower", Func::lower(v(41)), "41"), ("upper", Func::upper(v(41)), "41"), ("bit_and", Func::bit_and(v(41)), "41"), ("bit_or", Func::bit_or(v(41)), "41"),
            ("round", Func::round(v(41)), "41"), ("round_with_precision", Func::round_with_precision(v(41), v(42)), "41,42"), ("md5", Func::md5(v(41)), "41"),
            ("custom", Func::cust(a("f")).arg(v(41)).arg(v(42)).args([v(43).into(), v(44).into()]).arg(v(45)), "43,44,45"),
            ("to_tsquery cfg", PgFunc::to_tsquery(v(41), Some(40)), "40,41"), ("to_tsvector cfg", PgFunc::to_tsvector(v(41), Some(40)), "40,41"),
            ("phraseto_tsquery cfg", PgFunc::phraseto_tsquery(v(41), Some(40)), "40,41"), ("plainto_tsquery cfg", PgFunc::plainto_tsquery(v(41), Some(40)), "40,41"),
            ("websearch_to_tsquery cfg", PgFunc::websearch_to_tsquery(v(41), Some(40)), "40,41"), ("websearch_to_tsquery", PgFunc::websearch_to_tsquery(v(41), None), "41"),
            ("to_tsquery", PgFunc::to_tsquery(v(41), None), "41"), ("ts_rank", PgFunc::ts_rank(v(41), v(42)), "41,42"), ("ts_rank_cd", PgFunc::ts_rank_cd(v(41), v(42)), "41,42"),
            ("starts_with", PgFunc::starts_with(v(41), v(42)), "41,42"),
            ("json_build_object", PgFunc::json_build_object(vec![(v(41), v(42)), (v(43), v(44))]), "41,42,43,44"), ("json_agg", PgFunc::json_agg(v(41)), "41"),
            ("array_agg", PgFunc::array_agg(v(41)), "41"), ("array_agg_distinct", PgFunc::array_agg_distinct(v(41)), "41"),
        ];
        for (name, f, want) in fns {
            add!(format!("func {name} expect-pg=[{want},99] expect-my=[{want},99]"), Query::select().expr(f).from(a("t")).and_where(Expr::col(a("c")).eq(99)).to_owned());
        }
    }
    // rows given as Rust TUPLES of every width 1..12 (IntoValueTuple is macro-generated per width): VALUES lists and IN (tuples) bind the
    // values of a row in the order they were written
    {
        macro_rules! row { ($w:expr, $($k:expr),+) => {{
            let want: Vec<String> = (0..$w).map(|k| format!("{}", 100 + k)).collect(); let want = want.join(",");
            add!(format!("from_values row of {} expect-pg=[{want},7] expect-my=[{want},7]", $w), Query::select().column(Asterisk).from_values([($(100 + $k),+ ,)], a("v")).and_where(Expr::col(a("c")).eq(7)).to_owned());
        }}; }
        add!("from_values row of 1 expect-pg=[100,7] expect-my=[100,7]".to_string(), Query::select().column(Asterisk).from_values([100], a("v")).and_where(Expr::col(a("c")).eq(7)).to_owned());
        row!(2, 0, 1); row!(3, 0, 1, 2); row!(4, 0, 1, 2, 3); row!(5, 0, 1, 2, 3, 4); row!(6, 0, 1, 2, 3, 4, 5); row!(7, 0, 1, 2, 3, 4, 5, 6); row!(8, 0, 1, 2, 3, 4, 5, 6, 7);
        row!(9, 0, 1, 2, 3, 4, 5, 6, 7, 8); row!(10, 0, 1, 2, 3, 4, 5, 6, 7, 8, 9); row!(11, 0, 1, 2, 3, 4, 5, 6, 7, 8, 9, 10); row!(12, 0, 1, 2, 3, 4, 5, 6, 7, 8, 9, 10, 11);
    }
    // UPDATE with extra tables: MySQL moves the condition into JOIN .. ON (bound BEFORE the SET values, once); Postgres keeps WHERE
    for nf in 0..3usize {
        let mut u = Query::update(); u.table(a("t")).value(a("x"), 31).value(a("y"), 32).and_where(Expr::col(a("c")).gt(33));
        for f in ["f1", "f2"].iter().take(nf) { u.from(a(f)); }
        add!(format!("update from#{nf} expect-pg=[31,32,33] expect-my={}", if nf == 0 { "[31,32,33]" } else { "[33,31,32]" }), u);
    }
    // a literal that follows another literal carrying a backslash / quote / bytes: each literal is formed on its own
    add!("backslash then plain text", { let mut s = Query::select(); s.column(a("c")).from(a("t")).and_where(Expr::col(a("p")).eq("C:\\tmp")).and_where(Expr::col(a("o")).eq("bob")).and_where(Expr::col(a("q")).eq("it's")).and_where(Expr::col(a("r")).eq("x")); s });
    add!("bytes then plain text", { let mut s = Query::select(); s.column(a("c")).from(a("t")).and_where(Expr::col(a("b")).eq(vec![1u8, 2])).and_where(Expr::col(a("o")).eq("bob")).and_where(Expr::col(a("l")).like(LikeExpr::new("a%").escape('\\'))).and_where(Expr::col(a("r")).eq('z')); s });
    // every value the builder ACCEPTS is bound: rows / source queries given to a statement that relies on or_default_values()
    for k in 0..4u32 {
        let mut s = Query::insert(); s.into_table(a("t")).or_default_values();
        if k & 1 != 0 { s.columns(Vec::<Alias>::new()); }
        let ok = if k & 2 != 0 { s.select_from(Query::select().expr(Expr::val(73)).from(a("u")).and_where(Expr::col(a("x")).eq(74)).to_owned()).is_ok() } else { s.values([71.into(), 72.into()]).is_ok() };
        let want = match (ok, k & 2 != 0) { (false, _) => "", (true, false) => "71,72", (true, true) => "73,74" };
        add!(format!("insert or_default_values#{k} expect-pg=[{want}] expect-my=[{want}]"), s);
    }
    // RECORDED FINDING (C08 / C01 mysql-update-multi-from): MySQL renders only the FIRST extra table of an UPDATE; a value carried by a dropped one is lost
    add!("update from 2 tables, the second a sub-query with a value expect-pg=[31,77,33] expect-my=[33,77,31]", {
        let mut u = Query::update(); u.table(a("t")).value(a("x"), 31).and_where(Expr::col(a("c")).gt(33));
        u.from(a("f1")).from(TableRef::SubQuery(Query::select().column(a("y")).from(a("g")).and_where(Expr::col(a("y")).eq(77)).to_owned(), a("f2").into_iden())); u });
    add!("with", base(13).with(Query::with().cte(CommonTableExpression::new().query(base(10)).table_name(a("w")).to_owned()).to_owned()));
    v
}

pub fn check_all(filter: Option<&str>) -> Vec<Witness> {
    let mut found = vec![];
    let bs: [(&str, &dyn QueryBuilder); 3] = [("mysql", &MysqlQueryBuilder), ("postgres", &PostgresQueryBuilder), ("sqlite", &SqliteQueryBuilder)];
    // the entries that exhibit a RECORDED deviation first, so that the cap on reported witnesses cannot cut them off
    let mut all = corpus();
    all.sort_by_key(|(l, _)| !l.starts_with("update from 2 tables"));
    for (label, f) in all {
        if let Some(fl) = filter { if fl != label { continue; } }
        for (name, qb) in bs {
            let r = std::panic::catch_unwind(std::panic::AssertUnwindSafe(|| f(qb)));
            let (sql, vals, inl) = match r { Ok(x) => x, Err(_) => continue };
            let (mark, numbered) = qb.placeholder();
            let numbered = numbered && mark == "$";
            let phs = placeholders_d(&sql, numbered, match name { "sqlite" => 0, "mysql" => 1, _ => 2 });
            let mut w = |prop: &'static str, obs: String, exp: &str| found.push(Witness { property: prop, input: label.clone(), observed: format!("{name}: {obs}; sql = {sql}; values = {:?}", vals.0), expected: exp.to_string() });
            if phs.len() != vals.0.len() { w("C01", format!("{} placeholders vs {} values", phs.len(), vals.0.len()), "as many placeholders as values"); continue; }
            if numbered && phs.iter().enumerate().any(|(i, p)| p.2 != i + 1) { w("C01", format!("placeholder numbers {:?}", phs.iter().map(|p| p.2).collect::<Vec<_>>()), "$1..$n ascending"); continue; }
            // clause order, where the corpus entry states it: `expect-pg=[..]` (Postgres / SQLite) / `expect-my=[..]`
            let key = if name == "mysql" { "expect-my=[" } else { "expect-pg=[" };
            if let Some(p) = label.find(key) {
                let want: Vec<i64> = label[p + key.len()..].split(']').next().unwrap_or("").split(',').filter_map(|x| x.trim().parse::<i64>().ok()).collect();
                let got: Vec<i64> = vals.0.iter().map(|v| match v { Value::Int(Some(i)) => *i as i64, Value::Unsigned(Some(u)) => *u as i64, Value::BigInt(Some(i)) => *i, _ => -1 }).collect();
                if want != got {
                    if name == "mysql" && label.starts_with("update from 2 tables") && got == vec![33, 31] { w("C01", format!("known-deviation(mysql-update-multi-from) values {:?}", vals.0), &format!("values in clause order {want:?}")); continue; }
                    w("C01", format!("values {:?}", vals.0), &format!("values in clause order {want:?}")); continue; }
            }
            // C02: substitute
            let t: Vec<char> = sql.chars().collect();
            let (mut out, mut last) = (String::new(), 0usize);
            for (i, p) in phs.iter().enumerate() { out.extend(&t[last..p.0]); out.push_str(&qb.value_to_string(&vals.0[i])); last = p.1; }
            out.extend(&t[last..]);
            if out != inl { w("C02", format!("inline = {inl}; substituted = {out}"), "inline == parameterised with placeholders replaced by literals"); continue; }
            // "on a live engine they return the same rows": the literal that stands for a bound text / char / bytes value must
            // DENOTE that value under the engine's lexer (independent decoders of replay/src/lexers.rs, the C03 oracles)
            for v in vals.0.iter() {
                let (txt, by): (Option<String>, Option<Vec<u8>>) = match v { Value::String(Some(x)) => (Some((**x).clone()), None), Value::Char(Some(c)) => (Some(c.to_string()), None), Value::Bytes(Some(b)) => (None, Some((**b).clone())), _ => (None, None) };
                if txt.is_none() && by.is_none() { continue; }
                if let Some(x) = crate::c03::check_value(v, txt.as_deref(), by.as_deref(), &label) {
                    if x.observed.starts_with(name) { w("C02", format!("the inline literal does not denote the bound value: {}", x.observed), &x.expected); break; }
                }
            }
        }
        if found.len() >= 8 { break; }
    }
    found
}

pub fn search(prop: &str) -> Vec<Witness> { std::panic::set_hook(Box::new(|_| {})); check_all(None).into_iter().filter(|w| w.property == prop).collect() }
pub fn check_one(prop: &str, label: &str) -> Option<Witness> { std::panic::set_hook(Box::new(|_| {})); check_all(Some(label)).into_iter().find(|w| w.property == prop) }
