//! C14 bounded stand-in / witness search: schema statements built on the real crate, compared with the EXACT text the dialect's
//! DDL grammar requires (expected text written here by hand, per element, from the MySQL 8.0 / PostgreSQL 16 manuals; builder
//! calls and data are independent of the renderer).  Families: every column type alone; every ordered pair of column
//! specifications; CREATE TABLE element subsets (columns x indexes x foreign keys x checks x options x flags); ALTER TABLE
//! option sequences (incl. MODIFY with specification lists); CREATE / DROP INDEX; foreign keys in their three modes;
//! Postgres CREATE / ALTER / DROP TYPE and CREATE / DROP EXTENSION.
use crate::util::{deep, Witness};
use sea_query::extension::postgres::*;
use sea_query::*;

#[derive(Clone, Copy, PartialEq, Debug)]
enum D { My, Pg }
fn q(d: D, s: &str) -> String { match d { D::My => format!("`{s}`"), D::Pg => format!("\"{s}\"") } }
fn a(s: &str) -> Alias { Alias::new(s) }

#[derive(Clone, Debug)]
enum Ty { Char(Option<u32>), StrN(u32), Str, Text, Tiny, Small, Int, Big, TinyU, SmallU, IntU, BigU, Float, Double, Dec(Option<(u32, u32)>), DateTime, Timestamp, TimestampTz, Time, Date,
          Year, Interval(Option<PgInterval>, Option<u32>), Binary(u32), VarBinary(u32), Bit(Option<u32>), VarBit(u32), Bool, Money(Option<(u32, u32)>), Json, JsonB, Uuid, Custom, ArrayInt, ArrayArrayStr, Cidr, Inet, MacAddr, LTree, Blob }

fn all_types() -> Vec<Ty> {
    use Ty::*;
    vec![Char(None), Char(Some(7)), StrN(40), Str, Text, Tiny, Small, Int, Big, TinyU, SmallU, IntU, BigU, Float, Double, Dec(None), Dec(Some((12, 3))), DateTime, Timestamp, TimestampTz, Time, Date, Year,
         Interval(None, None), Interval(Some(PgInterval::YearToMonth), Some(4)), Interval(None, Some(2)), Binary(9), VarBinary(33), Bit(None), Bit(Some(5)), VarBit(6), Bool, Money(None), Money(Some((11, 2))), Json, JsonB, Uuid, Custom,
         ArrayInt, ArrayArrayStr, Cidr, Inet, MacAddr, LTree, Blob,
         // every field restriction of a Postgres interval
         Interval(Some(PgInterval::Year), None), Interval(Some(PgInterval::Month), None), Interval(Some(PgInterval::Day), None), Interval(Some(PgInterval::Hour), None), Interval(Some(PgInterval::Minute), None),
         Interval(Some(PgInterval::Second), Some(3)), Interval(Some(PgInterval::DayToHour), None), Interval(Some(PgInterval::DayToMinute), None), Interval(Some(PgInterval::DayToSecond), Some(6)),
         Interval(Some(PgInterval::HourToMinute), None), Interval(Some(PgInterval::HourToSecond), Some(3)), Interval(Some(PgInterval::MinuteToSecond), None)]
}
fn set_type(c: &mut ColumnDef, t: &Ty) {
    use Ty::*;
    match t {
        Char(None) => { c.char(); } Char(Some(n)) => { c.char_len(*n); } StrN(n) => { c.string_len(*n); } Str => { c.string(); } Text => { c.text(); }
        Tiny => { c.tiny_integer(); } Small => { c.small_integer(); } Int => { c.integer(); } Big => { c.big_integer(); }
        TinyU => { c.tiny_unsigned(); } SmallU => { c.small_unsigned(); } IntU => { c.unsigned(); } BigU => { c.big_unsigned(); }
        Float => { c.float(); } Double => { c.double(); } Dec(None) => { c.decimal(); } Dec(Some((p, s))) => { c.decimal_len(*p, *s); }
        DateTime => { c.date_time(); } Timestamp => { c.timestamp(); } TimestampTz => { c.timestamp_with_time_zone(); } Time => { c.time(); } Date => { c.date(); } Year => { c.year(); }
        Interval(f, p) => { c.interval(f.clone(), *p); } Binary(n) => { c.binary_len(*n); } VarBinary(n) => { c.var_binary(*n); } Bit(n) => { c.bit(*n); } VarBit(n) => { c.varbit(*n); }
        Bool => { c.boolean(); } Money(None) => { c.money(); } Money(Some((p, s))) => { c.money_len(*p, *s); } Json => { c.json(); } JsonB => { c.json_binary(); } Uuid => { c.uuid(); }
        Custom => { c.custom(a("citext")); } ArrayInt => { c.array(ColumnType::Integer); } ArrayArrayStr => { c.array(ColumnType::Array(RcOrArc::new(ColumnType::String(StringLen::N(5))))); }
        Cidr => { c.cidr(); } Inet => { c.inet(); } MacAddr => { c.mac_address(); } LTree => { c.ltree(); } Blob => { c.blob(); }
    }
}
/// the dialect's type for the abstract type (None: the dialect has no such type and the renderer refuses it)
fn type_text(d: D, t: &Ty) -> Option<String> {
    use Ty::*;
    let s = |x: &str| Some(x.to_string());
    match (d, t) {
        (_, Char(None)) => s("char"), (_, Char(Some(n))) => Some(format!("char({n})")), (_, StrN(n)) => Some(format!("varchar({n})")),
        (D::My, Str) => s("varchar(255)"), (D::Pg, Str) => s("varchar"), (_, Text) => s("text"),
        (D::My, Tiny) => s("tinyint"), (D::Pg, Tiny) => s("smallint"), (_, Small) => s("smallint"), (D::My, Int) => s("int"), (D::Pg, Int) => s("integer"), (_, Big) => s("bigint"),
        (D::My, TinyU) => s("tinyint UNSIGNED"), (D::My, SmallU) => s("smallint UNSIGNED"), (D::My, IntU) => s("int UNSIGNED"), (D::My, BigU) => s("bigint UNSIGNED"),
        (D::Pg, TinyU) => s("smallint"), (D::Pg, SmallU) => s("smallint"), (D::Pg, IntU) => s("integer"), (D::Pg, BigU) => s("bigint"),
        (D::My, Float) => s("float"), (D::Pg, Float) => s("real"), (D::My, Double) => s("double"), (D::Pg, Double) => s("double precision"),
        (_, Dec(None)) => s("decimal"), (_, Dec(Some((p, sc)))) => Some(format!("decimal({p}, {sc})")),
        (D::My, DateTime) => s("datetime"), (D::Pg, DateTime) => s("timestamp without time zone"), (_, Timestamp) => s("timestamp"),
        (D::My, TimestampTz) => s("timestamp"), (D::Pg, TimestampTz) => s("timestamp with time zone"), (_, Time) => s("time"), (_, Date) => s("date"),
        (D::My, Year) => s("year"), (D::Pg, Year) => None,
        (D::My, Interval(..)) => s("unsupported"),       // RECORDED FINDING C14-mysql-interval-unsupported: not a MySQL type
        (D::Pg, Interval(f, p)) => Some(format!("interval{}{}", match f { Some(f) => format!(" {}", match f { PgInterval::Year => "YEAR", PgInterval::Month => "MONTH", PgInterval::Day => "DAY", PgInterval::Hour => "HOUR", PgInterval::Minute => "MINUTE", PgInterval::Second => "SECOND",
            PgInterval::YearToMonth => "YEAR TO MONTH", PgInterval::DayToHour => "DAY TO HOUR", PgInterval::DayToMinute => "DAY TO MINUTE", PgInterval::DayToSecond => "DAY TO SECOND",
            PgInterval::HourToMinute => "HOUR TO MINUTE", PgInterval::HourToSecond => "HOUR TO SECOND", PgInterval::MinuteToSecond => "MINUTE TO SECOND" }), None => String::new() }, match p { Some(p) => format!("({p})"), None => String::new() })),
        (D::My, Binary(n)) => Some(format!("binary({n})")), (D::My, VarBinary(n)) => Some(format!("varbinary({n})")), (D::My, Blob) => s("blob"),
        (D::Pg, Binary(_)) | (D::Pg, VarBinary(_)) | (D::Pg, Blob) => s("bytea"),
        (_, Bit(None)) => s("bit"), (_, Bit(Some(n))) => Some(format!("bit({n})")), (D::My, VarBit(n)) => Some(format!("bit({n})")), (D::Pg, VarBit(n)) => Some(format!("varbit({n})")),
        (_, Bool) => s("bool"), (D::My, Money(None)) => s("decimal"), (D::My, Money(Some((p, sc)))) => Some(format!("decimal({p}, {sc})")), (D::Pg, Money(_)) => s("money"),
        (_, Json) => s("json"), (D::My, JsonB) => s("json"), (D::Pg, JsonB) => s("jsonb"), (D::My, Uuid) => s("binary(16)"), (D::Pg, Uuid) => s("uuid"), (_, Custom) => s("citext"),
        (D::Pg, ArrayInt) => s("integer[]"), (D::Pg, ArrayArrayStr) => s("varchar(5)[][]"), (D::Pg, Cidr) => s("cidr"), (D::Pg, Inet) => s("inet"), (D::Pg, MacAddr) => s("macaddr"), (D::Pg, LTree) => s("ltree"),
        (D::My, ArrayInt) | (D::My, ArrayArrayStr) | (D::My, Cidr) | (D::My, Inet) | (D::My, MacAddr) | (D::My, LTree) => None,
    }
}

#[derive(Clone, Copy, PartialEq, Debug)]
enum Sp { NotNull, Null, Default, AutoInc, Unique, Primary, Check, Extra, Comment, Generated }
const SPECS: [Sp; 10] = [Sp::NotNull, Sp::Null, Sp::Default, Sp::AutoInc, Sp::Unique, Sp::Primary, Sp::Check, Sp::Extra, Sp::Comment, Sp::Generated];
fn add_spec(c: &mut ColumnDef, s: Sp) {
    match s { Sp::NotNull => { c.not_null(); } Sp::Null => { c.null(); } Sp::Default => { c.default(7); } Sp::AutoInc => { c.auto_increment(); } Sp::Unique => { c.unique_key(); } Sp::Primary => { c.primary_key(); }
              Sp::Check => { c.check(Expr::col(a("k")).gt(1)); } Sp::Extra => { c.extra("XTRA"); } Sp::Comment => { c.comment("it's"); } Sp::Generated => { c.generated(Expr::col(a("k")).add(1), true); } }
}
/// column_definition: name type [specification ...]
fn coldef_text(d: D, name: &str, t: &Ty, specs: &[Sp]) -> Option<String> {
    let mut out = q(d, name);
    let auto = specs.contains(&Sp::AutoInc);
    let ty = if d == D::Pg && auto { match t { Ty::Small => "smallserial".to_string(), Ty::Int => "serial".into(), Ty::Big => "bigserial".into(), _ => return None } } else { type_text(d, t)? };
    out += " "; out += &ty;
    for s in specs {
        let k = q(d, "k");
        let piece = match (d, s) {
            (_, Sp::NotNull) => "NOT NULL".to_string(), (_, Sp::Null) => "NULL".into(), (_, Sp::Default) => "DEFAULT 7".into(),
            (D::My, Sp::AutoInc) => "AUTO_INCREMENT".into(), (D::Pg, Sp::AutoInc) => continue,
            (_, Sp::Unique) => "UNIQUE".into(), (_, Sp::Primary) => "PRIMARY KEY".into(), (_, Sp::Check) => format!("CHECK ({k} > 1)"), (_, Sp::Extra) => "XTRA".into(),
            (D::My, Sp::Comment) => "COMMENT 'it\\'s'".into(), (D::Pg, Sp::Comment) => continue,
            (_, Sp::Generated) => format!("GENERATED ALWAYS AS ({k} + 1) STORED"),
        };
        out += " "; out += &piece;
    }
    Some(out)
}
fn coldef(name: &str, t: &Ty, specs: &[Sp]) -> ColumnDef { let mut c = ColumnDef::new(a(name)); set_type(&mut c, t); for s in specs { add_spec(&mut c, *s); } c }

fn run<F: FnOnce() -> String + std::panic::UnwindSafe>(f: F) -> Option<String> { std::panic::catch_unwind(f).ok() }
/// a RECORDED deviation (known_findings.json): the rendering equals the deviant text -> reported under its own label, so that it
/// cannot hide another difference; `grammar` is what the dialect's grammar wants
fn known_dev(out: &mut Vec<Witness>, label: String, got: Option<String>, deviant: String, name: &str, grammar: &str) {
    if got.as_deref() == Some(deviant.as_str()) {
        if out.iter().filter(|w| w.observed.starts_with(&format!("known-deviation({name})"))).count() < 1 {
            out.push(Witness { property: "C14", input: label, observed: format!("known-deviation({name}) {deviant}"), expected: grammar.to_string() });
        }
    } else { cmp(out, label, got, Some(grammar.to_string())); }
}
/// white space next to a parenthesis or comma separates nothing (outside quoted text): `HASH(` and `HASH (` are the same tokens
fn norm2(sql: &str) -> String {
    let t: Vec<char> = crate::c08::norm(sql).chars().collect();
    let (mut out, mut i, mut quote): (String, usize, Option<char>) = (String::new(), 0, None);
    while i < t.len() {
        let c = t[i];
        match quote {
            Some(q) => { out.push(c); if c == '\\' && q == '\'' && i + 1 < t.len() { i += 1; out.push(t[i]); } else if c == q { quote = None; } }
            None => {
                if c == '\'' || c == '"' || c == '`' { quote = Some(c); out.push(c); }
                else if c == ' ' && (i + 1 < t.len() && matches!(t[i + 1], '(' | ')' | ',') || out.ends_with(|p| matches!(p, '(' | ')' | ','))) { /* drop */ }
                else { out.push(c); }
            }
        }
        i += 1;
    }
    out
}
static NO_CAP: std::sync::atomic::AtomicBool = std::sync::atomic::AtomicBool::new(false);
fn cmp(out: &mut Vec<Witness>, label: String, got: Option<String>, want: Option<String>) {
    if !NO_CAP.load(std::sync::atomic::Ordering::Relaxed) && out.iter().filter(|w| !w.observed.starts_with("known-deviation(")).count() >= 6 { return; }
    // the amount of white space between tokens is not part of the property (same normalisation as the C08 search: outside quoted text)
    match (&got, &want) {
        (Some(g), Some(w)) if norm2(g) == norm2(w) => {}
        (None, None) => {}
        _ => out.push(Witness { property: "C14", input: label, observed: got.unwrap_or_else(|| "<the renderer panicked>".into()), expected: want.unwrap_or_else(|| "<the dialect has no form for this: the renderer refuses (panics)>".into()) }),
    }
}

fn idx_variants() -> Vec<(&'static str, Box<dyn Fn() -> IndexCreateStatement>)> {
    vec![("pk", Box::new(|| Index::create().primary().col(a("id")).take()) as Box<dyn Fn() -> IndexCreateStatement>),
         ("uq named 2 cols", Box::new(|| Index::create().unique().name("u_x").col(a("k")).col(a("id")).take())),
         ("plain prefix desc", Box::new(|| Index::create().name("i_y").col((a("k"), 8, IndexOrder::Desc)).col((a("id"), IndexOrder::Asc)).take())),
         ("uq nulls not distinct include", Box::new(|| Index::create().unique().nulls_not_distinct().name("u_n").col(a("k")).include(a("id")).take())),
         ("fulltext", Box::new(|| Index::create().full_text().name("f_t").col(a("k")).take())),
         ("hash", Box::new(|| Index::create().index_type(IndexType::Hash).name("h_t").col(a("k")).take()))]
}
fn idxcols_text(d: D, v: usize) -> String {
    let (k, id) = (q(d, "k"), q(d, "id"));
    match v { 0 => format!("({id})"), 1 => format!("({k}, {id})"), 2 => format!("({k} (8) DESC, {id} ASC)"), _ => format!("({k})") }
}
/// table-level index / key definition
fn tblindex_text(d: D, v: usize) -> String {
    let cols = idxcols_text(d, v);
    match (d, v) {
        (D::My, 0) => format!("PRIMARY KEY {cols}"), (D::My, 1) => format!("UNIQUE KEY `u_x` {cols}"), (D::My, 2) => format!("KEY `i_y` {cols}"), (D::My, 3) => format!("UNIQUE KEY `u_n` {cols}"),
        (D::My, 4) => format!("FULLTEXT KEY `f_t`  {cols}"), (D::My, _) => format!("KEY `h_t`  USING HASH{cols}"),
        (D::Pg, 0) => format!("PRIMARY KEY {cols}"), (D::Pg, 1) => format!("CONSTRAINT \"u_x\" UNIQUE {cols}"), (D::Pg, 2) => format!("CONSTRAINT \"i_y\" {cols}"),
        (D::Pg, 3) => format!("CONSTRAINT \"u_n\" UNIQUE NULLS NOT DISTINCT {cols} INCLUDE (\"id\")"), (D::Pg, 4) => format!("CONSTRAINT \"f_t\" {cols}"), (D::Pg, _) => format!("CONSTRAINT \"h_t\" {cols}"),
    }
}
fn fk(named: bool, actions: bool) -> ForeignKeyCreateStatement {
    let mut f = ForeignKey::create();
    if named { f.name("fk_1"); }
    f.from(a("t"), (a("k"), a("id"))).to(a("u"), (a("x"), a("y")));
    if actions { f.on_delete(ForeignKeyAction::SetNull).on_update(ForeignKeyAction::NoAction); }
    f.take()
}
fn fk_text(d: D, named: bool, actions: bool, mode: u8) -> String {   // mode 0: inside CREATE TABLE, 1: own ALTER TABLE statement, 2: inside ALTER TABLE
    let head = match mode { 1 => format!("ALTER TABLE {} ADD ", q(d, "t")), 2 => "ADD ".to_string(), _ => String::new() };
    let name = match (d, named) { (D::My, true) => "CONSTRAINT `fk_1` FOREIGN KEY ".to_string(), (D::My, false) => "CONSTRAINT  FOREIGN KEY ".into(), (D::Pg, true) => "CONSTRAINT \"fk_1\" FOREIGN KEY ".into(), (D::Pg, false) => "FOREIGN KEY ".into() };
    format!("{head}{name}({}, {}) REFERENCES {} ({}, {}){}", q(d, "k"), q(d, "id"), q(d, "u"), q(d, "x"), q(d, "y"), if actions { " ON DELETE SET NULL ON UPDATE NO ACTION" } else { "" })
}

pub fn search(_obl: &str) -> Vec<Witness> {
    let mut out = vec![];
    std::panic::set_hook(Box::new(|_| {}));      // refusals (unimplemented! for types a dialect lacks) are expected outcomes here
    for d in [D::My, D::Pg] {
        let ts = |s: &TableCreateStatement| -> String { match d { D::My => s.to_string(MysqlQueryBuilder), D::Pg => s.to_string(PostgresQueryBuilder) } };
        // ---- every column type alone ------------------------------------------------------------------------------------------------
        for t in all_types() {
            let st = Table::create().table(a("t")).col(coldef("c", &t, &[])).take();
            let want = coldef_text(d, "c", &t, &[]).map(|c| format!("CREATE TABLE {} ( {c} )", q(d, "t")));
            if d == D::My && matches!(t, Ty::Interval(..)) {
                known_dev(&mut out, format!("{d:?} column type {t:?}"), run(std::panic::AssertUnwindSafe(|| ts(&st))), want.unwrap(), "mysql-interval-unsupported", "<MySQL defines no interval type: the renderer should refuse it like the other missing types>");
            } else { cmp(&mut out, format!("{d:?} column type {t:?}"), run(std::panic::AssertUnwindSafe(|| ts(&st))), want); }
        }
        // ---- ordered pairs (thorough: triples) of specifications on integer columns of the three widths ------------------------------------
        for t in [Ty::Int, Ty::Small, Ty::Big] {
            for &s1 in SPECS.iter() { for &s2 in SPECS.iter() {
                let thirds: Vec<Option<Sp>> = if deep() { SPECS.iter().map(|x| Some(*x)).chain([None]).collect() } else { vec![None] };
                for s3 in thirds {
                    let mut specs = vec![s1]; if s2 != s1 { specs.push(s2); } if let Some(s3) = s3 { if !specs.contains(&s3) { specs.push(s3); } }
                    let st = Table::create().table(a("t")).col(coldef("c", &t, &specs)).take();
                    let want = coldef_text(d, "c", &t, &specs).map(|c| format!("CREATE TABLE {} ( {c} )", q(d, "t")));
                    cmp(&mut out, format!("{d:?} column {t:?} specs {specs:?}"), run(std::panic::AssertUnwindSafe(|| ts(&st))), want);
                }
            } }
        }
        // ---- CREATE TABLE: element subsets ---------------------------------------------------------------------------------------------------
        let ivs = idx_variants();
        for mask in 0u32..(1 << 9) {
            let ncols = (mask & 3) as usize; if ncols == 3 { continue; }
            let (idx, fkv, chk, opts, ine, tmp, extra) = (((mask >> 2) & 3) as usize, (mask >> 4) & 3, mask & 64 != 0, mask & 128 != 0, mask & 256 != 0, mask & 64 != 0 && mask & 4 != 0, mask & 128 != 0 && mask & 16 != 0);
            let mut st = Table::create();
            // builder calls deliberately NOT in grammar order
            if extra { st.extra("WITHOUT ROWID"); }
            if opts { st.engine("InnoDB").comment("c'x").collate("utf8mb4_bin").character_set("utf8mb4"); }
            if chk { st.check(Expr::col(a("k")).lt(9)); }
            if fkv > 0 { st.foreign_key(&mut fk(fkv & 1 != 0, fkv & 2 != 0)); }
            for i in 0..idx { let mut ix = (ivs[(i + mask as usize) % ivs.len()].1)(); st.index(&mut ix); }
            if ine { st.if_not_exists(); }
            st.table(a("t"));
            let cols = [("id", Ty::Int, vec![Sp::NotNull, Sp::Primary]), ("k", Ty::StrN(9), vec![Sp::Default])];
            for c in cols.iter().take(ncols) { st.col(coldef(c.0, &c.1, &c.2)); }
            if tmp { st.temporary(); }
            let mut elems: Vec<String> = cols.iter().take(ncols).map(|c| coldef_text(d, c.0, &c.1, &c.2).unwrap()).collect();
            for i in 0..idx { elems.push(tblindex_text(d, (i + mask as usize) % ivs.len())); }
            if fkv > 0 { elems.push(fk_text(d, fkv & 1 != 0, fkv & 2 != 0, 0)); }
            if chk { elems.push(format!("CHECK ({} < 9)", q(d, "k"))); }
            let mut want = format!("CREATE {}TABLE {}{} ( {} )", if tmp { "TEMPORARY " } else { "" }, if ine { "IF NOT EXISTS " } else { "" }, q(d, "t"), elems.join(", "));
            if opts { if d == D::My { want += " COMMENT 'c\\'x'"; } want += " ENGINE=InnoDB COLLATE=utf8mb4_bin DEFAULT CHARSET=utf8mb4"; }
            if extra { want += " WITHOUT ROWID"; }
            let stt = st.take();
            cmp(&mut out, format!("{d:?} create table mask={mask}"), run(std::panic::AssertUnwindSafe(|| ts(&stt))), Some(want));
        }
        // ---- ALTER TABLE: sequences of one or two options --------------------------------------------------------------------------------
        let t_ = q(d, "t");
        let mod_specs: Vec<Vec<Sp>> = vec![vec![], vec![Sp::NotNull], vec![Sp::Comment, Sp::NotNull], vec![Sp::Check], vec![Sp::Default, Sp::Unique], vec![Sp::Null, Sp::Primary, Sp::Extra], vec![Sp::Generated, Sp::NotNull], vec![Sp::NotNull, Sp::Comment]];
        let mut opts: Vec<(String, Box<dyn Fn(&mut TableAlterStatement)>, Option<String>)> = vec![];
        for (i, sp) in mod_specs.iter().enumerate() {
            let sp2 = sp.clone();
            let want = match d {
                D::My => coldef_text(d, "k", &Ty::Big, sp).map(|c| format!("MODIFY COLUMN {c}")),
                D::Pg => {
                    // a list of actions, comma separated; specifications with no ALTER form write nothing
                    let k = q(d, "k");
                    let mut acts = vec![format!("ALTER COLUMN {k} TYPE bigint")];
                    for s in sp { match s { Sp::NotNull => acts.push(format!("ALTER COLUMN {k} SET NOT NULL")), Sp::Null => acts.push(format!("ALTER COLUMN {k} DROP NOT NULL")), Sp::Default => acts.push(format!("ALTER COLUMN {k} SET DEFAULT 7")),
                                            Sp::Unique => acts.push(format!("ADD UNIQUE ({k})")), Sp::Primary => acts.push(format!("ADD PRIMARY KEY ({k})")), Sp::Check => acts.push(format!("ADD CHECK ({k} > 1)")), Sp::Extra => acts.push("XTRA".into()),
                                            Sp::AutoInc | Sp::Comment | Sp::Generated => {} } }
                    Some(acts.join(", "))
                }
            };
            opts.push((format!("modify#{i}"), Box::new(move |al: &mut TableAlterStatement| { al.modify_column(coldef("k", &Ty::Big, &sp2)); }), want));
        }
        // MODIFY without a type (Postgres: only the specification actions; leading no-op specifications leave no separator behind)
        if d == D::Pg {
            opts.push(("modify(no type; autoinc, not null)".into(), Box::new(|al: &mut TableAlterStatement| { let mut c = ColumnDef::new(a("k")); c.auto_increment().not_null(); al.modify_column(c); }), Some(format!("ALTER COLUMN {} SET NOT NULL", q(d, "k")))));
        }
        opts.push(("add".into(), Box::new(|al: &mut TableAlterStatement| { al.add_column(coldef("n", &Ty::Int, &[Sp::NotNull, Sp::Default])); }), coldef_text(d, "n", &Ty::Int, &[Sp::NotNull, Sp::Default]).map(|c| format!("ADD COLUMN {c}"))));
        opts.push(("add if not exists autoinc".into(), Box::new(|al: &mut TableAlterStatement| { al.add_column_if_not_exists(coldef("n", &Ty::Big, &[Sp::AutoInc, Sp::Primary])); }), coldef_text(d, "n", &Ty::Big, &[Sp::AutoInc, Sp::Primary]).map(|c| format!("ADD COLUMN IF NOT EXISTS {c}"))));
        opts.push(("rename".into(), Box::new(|al: &mut TableAlterStatement| { al.rename_column(a("k"), a("k2")); }), Some(format!("RENAME COLUMN {} TO {}", q(d, "k"), q(d, "k2")))));
        opts.push(("drop".into(), Box::new(|al: &mut TableAlterStatement| { al.drop_column(a("k")); }), Some(format!("DROP COLUMN {}", q(d, "k")))));
        opts.push(("add fk".into(), Box::new(|al: &mut TableAlterStatement| { let f = fk(true, true); al.add_foreign_key(f.get_foreign_key()); }), Some(fk_text(d, true, true, 2))));
        opts.push(("drop fk".into(), Box::new(|al: &mut TableAlterStatement| { al.drop_foreign_key(a("fk_1")); }), Some(match d { D::My => "DROP FOREIGN KEY `fk_1`".to_string(), D::Pg => "DROP CONSTRAINT \"fk_1\"".into() })));
        for i in 0..opts.len() { for j in 0..=opts.len() {
            let mut al = Table::alter(); al.table(a("t"));
            (opts[i].1)(&mut al);
            let mut parts = vec![opts[i].2.clone()];
            let mut lab = opts[i].0.clone();
            if j < opts.len() { (opts[j].1)(&mut al); parts.push(opts[j].2.clone()); lab += &format!(" ; {}", opts[j].0); }
            let want = if parts.iter().all(|p| p.is_some()) { Some(format!("ALTER TABLE {t_} {}", parts.into_iter().map(|p| p.unwrap()).collect::<Vec<_>>().join(", "))) } else { None };
            let alt = al.take();
            cmp(&mut out, format!("{d:?} alter table: {lab}"), run(std::panic::AssertUnwindSafe(|| match d { D::My => alt.to_string(MysqlQueryBuilder), D::Pg => alt.to_string(PostgresQueryBuilder) })), want);
        } }
        // ---- DROP / TRUNCATE / RENAME TABLE ----------------------------------------------------------------------------------------------------------
        for m in 0u32..8 {
            let mut dr = Table::drop(); dr.table(a("t")); if m & 1 != 0 { dr.table(a("u")); } if m & 2 != 0 { dr.if_exists(); } if m & 4 != 0 { dr.cascade(); }
            let want = format!("DROP TABLE {}{}{}{}", if m & 2 != 0 { "IF EXISTS " } else { "" }, q(d, "t"), if m & 1 != 0 { format!(", {}", q(d, "u")) } else { String::new() }, if m & 4 != 0 { " CASCADE" } else { "" });
            let s = dr.take();
            cmp(&mut out, format!("{d:?} drop table m={m}"), run(std::panic::AssertUnwindSafe(|| match d { D::My => s.to_string(MysqlQueryBuilder), D::Pg => s.to_string(PostgresQueryBuilder) })), Some(want));
        }
        let tr = Table::truncate().table(a("t")).take();
        cmp(&mut out, format!("{d:?} truncate"), run(std::panic::AssertUnwindSafe(|| match d { D::My => tr.to_string(MysqlQueryBuilder), D::Pg => tr.to_string(PostgresQueryBuilder) })), Some(format!("TRUNCATE TABLE {t_}")));
        let rn = Table::rename().table(a("t"), a("u")).take();
        cmp(&mut out, format!("{d:?} rename table"), run(std::panic::AssertUnwindSafe(|| match d { D::My => rn.to_string(MysqlQueryBuilder), D::Pg => rn.to_string(PostgresQueryBuilder) })),
            Some(match d { D::My => format!("RENAME TABLE {t_} TO {}", q(d, "u")), D::Pg => format!("ALTER TABLE {t_} RENAME TO {}", q(d, "u")) }));
        // ---- CREATE / DROP INDEX ---------------------------------------------------------------------------------------------------------------------------
        for (v, (lab, mk)) in ivs.iter().enumerate() {
            if v == 0 { continue; }   // a PRIMARY KEY is not created with CREATE INDEX
            for ine in [false, true] {
                let mut ix = mk(); ix.table(a("t")); if ine { ix.if_not_exists(); }
                let cols = idxcols_text(d, v);
                let name = ["", "u_x", "i_y", "u_n", "f_t", "h_t"][v];
                let want = match d {
                    D::My => format!("CREATE {}INDEX `{name}` ON `t` {cols}{}", match v { 1 | 3 => "UNIQUE ", 4 => "FULLTEXT ", _ => "" }, if v == 5 { " USING HASH" } else { "" }),
                    D::Pg => format!("CREATE {}INDEX {}\"{name}\" ON \"t\"{} {cols}{}{}", if v == 1 || v == 3 { "UNIQUE " } else { "" }, if ine { "IF NOT EXISTS " } else { "" }, match v { 4 => " USING GIN", 5 => " USING HASH", _ => "" },
                                     if v == 3 { " INCLUDE (\"id\")" } else { "" }, if v == 3 { " NULLS NOT DISTINCT" } else { "" }),
                };
                let s = ix.take();
                cmp(&mut out, format!("{d:?} create index {lab} ine={ine}"), run(std::panic::AssertUnwindSafe(|| match d { D::My => s.to_string(MysqlQueryBuilder), D::Pg => s.to_string(PostgresQueryBuilder) })), Some(want));
            }
        }
        let dx = Index::drop().name("i_y").table(a("t")).to_owned();
        cmp(&mut out, format!("{d:?} drop index"), run(std::panic::AssertUnwindSafe(|| match d { D::My => dx.to_string(MysqlQueryBuilder), D::Pg => dx.to_string(PostgresQueryBuilder) })), Some(match d { D::My => "DROP INDEX `i_y` ON `t`".to_string(), D::Pg => "DROP INDEX \"i_y\"".into() }));
        if d == D::My {
            // MySQL's DROP INDEX has no IF EXISTS (the renderer refuses it)
            let dx = Index::drop().name("i_y").table(a("t")).if_exists().to_owned();
            cmp(&mut out, "My drop index if exists".into(), run(std::panic::AssertUnwindSafe(|| dx.to_string(MysqlQueryBuilder))), None);
        }
        if d == D::Pg {
            let dx = Index::drop().name("i_y").table((a("s"), a("t"))).if_exists().to_owned();
            cmp(&mut out, "Pg drop index if exists, schema".into(), run(std::panic::AssertUnwindSafe(|| dx.to_string(PostgresQueryBuilder))), Some("DROP INDEX IF EXISTS \"s\".\"i_y\"".into()));
            // partial index
            let px = Index::create().name("p_x").table(a("t")).col(a("k")).and_where(Expr::col(a("k")).gt(3)).take();
            cmp(&mut out, "Pg partial index".into(), run(std::panic::AssertUnwindSafe(|| px.to_string(PostgresQueryBuilder))), Some("CREATE INDEX \"p_x\" ON \"t\" (\"k\") WHERE \"k\" > 3".into()));
        }
        // ---- foreign keys as statements of their own -----------------------------------------------------------------------------------------
        for (n, ac) in [(true, true), (true, false), (false, true)] {
            let f = fk(n, ac);
            cmp(&mut out, format!("{d:?} foreign key create named={n} actions={ac}"), run(std::panic::AssertUnwindSafe(|| match d { D::My => f.to_string(MysqlQueryBuilder), D::Pg => f.to_string(PostgresQueryBuilder) })), Some(fk_text(d, n, ac, 1)));
        }
        let fd = ForeignKey::drop().name("fk_1").table(a("t")).to_owned();
        cmp(&mut out, format!("{d:?} foreign key drop"), run(std::panic::AssertUnwindSafe(|| match d { D::My => fd.to_string(MysqlQueryBuilder), D::Pg => fd.to_string(PostgresQueryBuilder) })),
            Some(match d { D::My => "ALTER TABLE `t` DROP FOREIGN KEY `fk_1`".to_string(), D::Pg => "ALTER TABLE \"t\" DROP CONSTRAINT \"fk_1\"".into() }));
    }
    // ---- Postgres types and extensions --------------------------------------------------------------------------------------------------------------
    let pg = |s: String| s;
    for n in 0..3usize {
        // labels given by SEVERAL calls: every call appends
        let mut c = Type::create(); c.as_enum(a("mood"));
        let labels = ["sad", "o'k", "happy"];
        if n >= 1 { c.values([a(labels[0])]); } if n >= 2 { c.values([a(labels[1]), a(labels[2])]); }
        let want = format!("CREATE TYPE \"mood\" AS ENUM ({})", match n { 0 => "".to_string(), 1 => "'sad'".into(), _ => "'sad', E'o\\'k', 'happy'".into() });
        cmp(&mut out, format!("Pg create type with {n} value calls"), run(std::panic::AssertUnwindSafe(|| pg(c.to_string(PostgresQueryBuilder)))), Some(want));
    }
    for m in 0u32..8 {
        let mut dr = Type::drop(); dr.name(a("mood")); if m & 1 != 0 { dr.names([a("m2"), a("m3")]); } if m & 2 != 0 { dr.if_exists(); } if m & 4 != 0 { dr.cascade(); }
        let want = format!("DROP TYPE {}\"mood\"{}{}", if m & 2 != 0 { "IF EXISTS " } else { "" }, if m & 1 != 0 { ", \"m2\", \"m3\"" } else { "" }, if m & 4 != 0 { " CASCADE" } else { "" });
        cmp(&mut out, format!("Pg drop type m={m}"), run(std::panic::AssertUnwindSafe(|| dr.to_string(PostgresQueryBuilder))), Some(want));
    }
    let alters: Vec<(&str, TypeAlterStatement, &str)> = vec![
        ("add value", Type::alter().name(a("mood")).add_value(a("new")), "ALTER TYPE \"mood\" ADD VALUE 'new'"),
        ("add value if not exists before", Type::alter().name(a("mood")).add_value(a("new")).if_not_exists().before(a("sad")), "ALTER TYPE \"mood\" ADD VALUE IF NOT EXISTS 'new' BEFORE 'sad'"),
        ("add value after", Type::alter().name((a("s"), a("mood"))).add_value(a("new")).after(a("sad")), "ALTER TYPE \"s\".\"mood\" ADD VALUE 'new' AFTER 'sad'"),
        // RECORDED FINDING (C04-pg-alter-type-rename-to-literal / C14): the grammar wants an identifier here
        ("rename to", Type::alter().name(a("mood")).rename_to(a("feel")), "ALTER TYPE \"mood\" RENAME TO 'feel'"),
        ("rename value", Type::alter().name(a("mood")).rename_value(a("sad"), a("blue")), "ALTER TYPE \"mood\" RENAME VALUE 'sad' TO 'blue'"),
    ];
    for (lab, st, want) in alters {
        if lab == "rename to" { known_dev(&mut out, format!("Pg alter type {lab}"), run(std::panic::AssertUnwindSafe(|| st.to_string(PostgresQueryBuilder))), want.to_string(), "pg-alter-type-rename-to-literal", "ALTER TYPE \"mood\" RENAME TO \"feel\""); }
        else { cmp(&mut out, format!("Pg alter type {lab}"), run(std::panic::AssertUnwindSafe(|| st.to_string(PostgresQueryBuilder))), Some(want.to_string())); }
    }
    for m in 0u32..16 {
        let mut e = Extension::create(); e.name("ltree"); if m & 1 != 0 { e.if_not_exists(); } if m & 2 != 0 { e.schema("ext"); } if m & 4 != 0 { e.version("1.2"); } if m & 8 != 0 { e.cascade(); }
        let want = format!("CREATE EXTENSION {}ltree{}{}{}", if m & 1 != 0 { "IF NOT EXISTS " } else { "" }, if m & 2 != 0 { " WITH SCHEMA ext" } else { "" }, if m & 4 != 0 { " VERSION 1.2" } else { "" }, if m & 8 != 0 { " CASCADE" } else { "" });
        cmp(&mut out, format!("Pg create extension m={m}"), run(std::panic::AssertUnwindSafe(|| e.to_string(PostgresQueryBuilder))), Some(want));
    }
    for m in 0u32..6 {
        let mut e = Extension::drop(); e.name("ltree"); if m & 1 != 0 { e.if_exists(); } if m & 2 != 0 { e.cascade(); } if m & 4 != 0 { e.restrict(); }
        let want = format!("DROP EXTENSION {}ltree{}{}", if m & 1 != 0 { "IF EXISTS " } else { "" }, if m & 2 != 0 { " CASCADE" } else { "" }, if m & 4 != 0 { " RESTRICT" } else { "" });
        cmp(&mut out, format!("Pg drop extension m={m}"), run(std::panic::AssertUnwindSafe(|| e.to_string(PostgresQueryBuilder))), Some(want));
    }
    out
}

/// replay: the case with this label, re-evaluated on the current tree (the search is cheap: it is simply re-run and filtered)
pub fn check_one(label: &str) -> Option<Witness> { NO_CAP.store(true, std::sync::atomic::Ordering::Relaxed); search("").into_iter().find(|w| w.input == label && !w.observed.starts_with("known-deviation(")) }
