//! C15 witness search: take / clone / clear on fully populated builders of the real crate.
use crate::util::Witness;
use sea_query::*;

fn a(s: &str) -> Alias { Alias::new(s) }
fn w(input: &str, obs: String, exp: &str) -> Option<Witness> { Some(Witness { property: "C15", input: input.to_string(), observed: obs, expected: exp.to_string() }) }

fn full_select() -> SelectStatement {
    let mut s = Query::select();
    s.distinct().column(a("c")).expr_as(Expr::col(a("d")).add(1), a("e")).from(a("t")).inner_join(a("u"), Expr::col((a("t"), a("c"))).equals((a("u"), a("c"))))
        .and_where(Expr::col(a("c")).gt(1)).group_by_col(a("c")).and_having(Expr::col(a("c")).max().lt(9)).union(UnionType::All, Query::select().column(a("c")).from(a("v")).to_owned())
        .order_by(a("c"), Order::Desc).limit(5).offset(6).lock(LockType::Update)
        .window(a("w"), WindowStatement::partition_by(a("c")))
        .with_cte(CommonTableExpression::new().query(Query::select().column(a("x")).from(a("y")).to_owned()).table_name(a("cte")).to_owned());
    // dialect extensions (fields behind backend features)
    {
        use sea_query::extension::mysql::{IndexHintScope, MySqlSelectStatementExt};
        use sea_query::extension::postgres::{PostgresSelectStatementExt, SampleMethod};
        s.use_index(a("ix"), IndexHintScope::All);
        s.table_sample(SampleMethod::SYSTEM, 10.0, None);
    }
    s
}
fn render_q(s: &SelectStatement) -> [String; 3] { [s.to_string(MysqlQueryBuilder), s.to_string(PostgresQueryBuilder), s.to_string(SqliteQueryBuilder)] }

macro_rules! schema_take {
    ($label:expr, $build:expr, $found:ident) => {{
        let mut s = $build;
        let before = s.clone();
        let r0 = [before.to_string(MysqlQueryBuilder), before.to_string(PostgresQueryBuilder)];
        let t = s.take();
        if format!("{t:?}") != format!("{before:?}") { if let Some(x) = w($label, format!("taken = {t:?} ; before = {before:?}"), "take() returns a statement equal to the one before the call") { $found.push(x); } }
        else if [t.to_string(MysqlQueryBuilder), t.to_string(PostgresQueryBuilder)] != r0 { if let Some(x) = w($label, "taken statement renders differently".into(), "identical rendering") { $found.push(x); } }
    }};
}

pub fn search(_obl: &str) -> Vec<Witness> {
    std::panic::set_hook(Box::new(|_| {}));
    let mut found: Vec<Witness> = vec![];
    // --- SelectStatement: take, clone independence, clear_* / reset_* frames
    {
        let mut s = full_select();
        let before = s.clone();
        let t = s.take();
        if t != before { found.extend(w("select.take()", format!("taken != before: {t:?}"), "take() returns the statement before the call")); }
        else if render_q(&t) != render_q(&before) { found.extend(w("select.take()", "taken renders differently".into(), "identical rendering")); }
        if s != SelectStatement::new() { found.extend(w("select.take()", format!("left behind: {s:?}"), "a newly constructed statement is left behind")); }
        let mut c = before.clone();
        c.limit(99).and_where(Expr::col(a("zz")).eq(1));
        if before != full_select() { found.extend(w("select.clone() then modify", "source changed".into(), "changes to a clone never show in the source")); }
        type F = fn(&mut SelectStatement) -> &mut SelectStatement;
        let clears: [(&str, F, F); 5] = [
            ("clear_selects", |s| s.clear_selects(), |s| { let sel = full_select(); let _ = sel; s }),
            ("from_clear", |s| s.from_clear(), |s| s), ("reset_limit", |s| s.reset_limit(), |s| s), ("reset_offset", |s| s.reset_offset(), |s| s), ("clear_order_by", |s| s.clear_order_by(), |s| s)];
        for (name, f, _) in clears {
            let mut x = full_select();
            f(&mut x);
            // rebuild the expected statement: the same calls without that clause
            let mut e = Query::select();
            e.distinct();
            if name != "clear_selects" { e.column(a("c")).expr_as(Expr::col(a("d")).add(1), a("e")); }
            if name != "from_clear" { e.from(a("t")); }
            e.inner_join(a("u"), Expr::col((a("t"), a("c"))).equals((a("u"), a("c")))).and_where(Expr::col(a("c")).gt(1)).group_by_col(a("c")).and_having(Expr::col(a("c")).max().lt(9))
                .union(UnionType::All, Query::select().column(a("c")).from(a("v")).to_owned());
            if name != "clear_order_by" { e.order_by(a("c"), Order::Desc); }
            if name != "reset_limit" { e.limit(5); }
            if name != "reset_offset" { e.offset(6); }
            e.lock(LockType::Update).window(a("w"), WindowStatement::partition_by(a("c")))
                .with_cte(CommonTableExpression::new().query(Query::select().column(a("x")).from(a("y")).to_owned()).table_name(a("cte")).to_owned());
            {
                use sea_query::extension::mysql::{IndexHintScope, MySqlSelectStatementExt};
                use sea_query::extension::postgres::{PostgresSelectStatementExt, SampleMethod};
                e.use_index(a("ix"), IndexHintScope::All);
                e.table_sample(SampleMethod::SYSTEM, 10.0, None);
            }
            if x != e { found.extend(w(&format!("select.{name}()"), format!("{:?}", x.to_string(PostgresQueryBuilder)), &format!("removes exactly that clause: {:?}", e.to_string(PostgresQueryBuilder)))); }
        }
    }
    {
        let mut ws = WindowStatement::partition_by(a("c"));
        ws.order_by(a("d"), Order::Asc).frame_start(FrameType::Rows, Frame::UnboundedPreceding);
        let before = ws.clone();
        let t = ws.take();
        if t != before { found.extend(w("window.take()", format!("{t:?}"), "equal to before")); }
        if ws != WindowStatement::new() { found.extend(w("window.take()", format!("left behind {ws:?}"), "a new statement is left behind")); }
    }
    schema_take!("table create take()", Table::create().table(a("t")).if_not_exists().col(ColumnDef::new(a("id")).integer().not_null().auto_increment().primary_key()).col(ColumnDef::new(a("n")).string().default("x")).index(Index::create().name("i").col(a("n")).unique()).foreign_key(ForeignKey::create().name("fk").from(a("t"), a("n")).to(a("u"), a("m"))).check(Expr::col(a("id")).gt(0)).comment("c").to_owned(), found);
    schema_take!("table alter take()", Table::alter().table(a("t")).add_column(ColumnDef::new(a("z")).integer()).drop_column(a("y")).to_owned(), found);
    schema_take!("table drop take()", Table::drop().table(a("t")).table(a("u")).if_exists().cascade().to_owned(), found);
    schema_take!("table rename take()", Table::rename().table(a("t"), a("u")).to_owned(), found);
    schema_take!("table truncate take()", Table::truncate().table(a("t")).to_owned(), found);
    schema_take!("index create take()", Index::create().name("i").table(a("t")).col(a("c")).col(a("d")).unique().if_not_exists().index_type(IndexType::BTree).to_owned(), found);
    // boolean flags: every combination (a flag copied from its neighbour only shows when the two differ)
    for (u, ine) in [(false, false), (true, false), (false, true)] {
        let mut i = Index::create(); i.name("i").table(a("t")).col(a("c"));
        if u { i.unique(); } if ine { i.if_not_exists(); }
        schema_take!("index create take() flags", i, found);
    }
    for (ie, casc) in [(true, false), (false, true)] {
        let mut d = Table::drop(); d.table(a("t"));
        if ie { d.if_exists(); } if casc { d.cascade(); }
        schema_take!("table drop take() flags", d, found);
    }
    schema_take!("foreign key create take()", ForeignKey::create().name("fk").from(a("t"), a("c")).to(a("u"), a("d")).on_delete(ForeignKeyAction::Cascade).on_update(ForeignKeyAction::SetNull).to_owned(), found);
    {
        let mut c = ColumnDef::new(a("n")); c.string_len(5).not_null().default("q").unique_key().comment("k");
        let before = c.clone();
        let t = c.take();
        if format!("{t:?}") != format!("{before:?}") { found.extend(w("column def take()", format!("{t:?}"), "equal to before")); }
    }
    found
}
pub fn check_one(label: &str) -> Option<Witness> { search("").into_iter().find(|w| w.input == label) }
