//! C05 witness search: expression trees built through the public API, rendered by the three real backends, re-parsed
//! with each engine's operator precedence / associativity (same tables as units/prec/spec.rs) and compared with the
//! tree that was built.  Bounded: all trees up to depth 2 over 14 binary operators, NOT and BETWEEN, plus depth-3 spines.
use crate::util::Witness;
use sea_query::*;

#[derive(Clone, Debug, PartialEq)]
enum T { Atom(&'static str), Not(Box<T>), Bin(&'static str, Box<T>, Box<T>), Btw(bool, Box<T>, Box<T>, Box<T>) }

const OPS: &[(&str, BinOper)] = &[("AND", BinOper::And), ("OR", BinOper::Or), ("=", BinOper::Equal), ("<>", BinOper::NotEqual), ("<", BinOper::SmallerThan),
    ("+", BinOper::Add), ("-", BinOper::Sub), ("*", BinOper::Mul), ("/", BinOper::Div), ("%", BinOper::Mod), ("<<", BinOper::LShift), ("&", BinOper::BitAnd), ("|", BinOper::BitOr), ("LIKE", BinOper::Like), ("IS", BinOper::Is)];

fn prec(engine: usize, op: &str) -> Option<i32> {
    Some(match engine {
        0 => match op { "*" | "/" | "%" => 12, "+" | "-" => 11, "<<" | ">>" => 10, "&" => 9, "|" => 8, "=" | "<>" | "<" | ">" | "<=" | ">=" | "IS" | "LIKE" | "IN" => 7, "BETWEEN" => 6, "NOT" => 5, "AND" => 4, "OR" => 2, _ => return None },
        1 => match op { "*" | "/" | "%" => 10, "+" | "-" => 9, "<<" | ">>" | "&" | "|" => 8, "BETWEEN" | "IN" | "LIKE" => 7, "=" | "<>" | "<" | ">" | "<=" | ">=" => 6, "IS" => 5, "NOT" => 4, "AND" => 3, "OR" => 2, _ => return None },
        _ => match op { "*" | "/" | "%" => 10, "+" | "-" => 9, "<<" | ">>" | "&" | "|" => 8, "<" | ">" | "<=" | ">=" => 6, "=" | "<>" | "IS" | "BETWEEN" | "IN" | "LIKE" => 5, "NOT" => 4, "AND" => 3, "OR" => 2, _ => return None },
    })
}
fn nonassoc(engine: usize, op: &str) -> bool { engine == 1 && matches!(op, "=" | "<>" | "<" | ">" | "<=" | ">=") }

// WRAP: every non-atomic operand is additionally wrapped in `.as_enum(..)`, which MySQL and SQLite render transparently (no
// syntax of its own): the grouping of the wrapped operand must survive exactly as without the wrapper
static WRAP: std::sync::atomic::AtomicBool = std::sync::atomic::AtomicBool::new(false);
fn build(t: &T) -> SimpleExpr { build_at(t, true) }
fn build_at(t: &T, root: bool) -> SimpleExpr {
    let e: SimpleExpr = match t {
        T::Atom(n) => Expr::col(Alias::new(*n)).into(),
        T::Not(x) => build_at(x, false).not(),
        T::Bin(op, l, r) => build_at(l, false).binary(OPS.iter().find(|o| o.0 == *op).unwrap().1, build_at(r, false)),
        T::Btw(neg, x, lo, hi) => if *neg { build_at(x, false).not_between(build_at(lo, false), build_at(hi, false)) } else { build_at(x, false).between(build_at(lo, false), build_at(hi, false)) },
    };
    if !root && !matches!(t, T::Atom(_)) && WRAP.load(std::sync::atomic::Ordering::Relaxed) { e.as_enum(Alias::new("e")) } else { e }
}

fn lex(s: &str) -> Vec<String> {
    let b: Vec<char> = s.chars().collect();
    let (mut i, mut out) = (0, vec![]);
    while i < b.len() {
        let c = b[i];
        if c == ' ' { i += 1; }
        else if c == '(' || c == ')' { out.push(c.to_string()); i += 1; }
        else if c == '"' || c == '`' { let mut j = i + 1; while b[j] != c { j += 1; } out.push(b[i + 1..j].iter().collect()); i = j + 1; }
        else { let mut j = i; while j < b.len() && !" ()\"`".contains(b[j]) { j += 1; } out.push(b[i..j].iter().collect()); i = j; }
    }
    out
}
struct P { t: Vec<String>, i: usize, e: usize }
impl P {
    fn peek(&self) -> Option<&str> { self.t.get(self.i).map(|s| s.as_str()) }
    fn expr(&mut self, min: i32) -> Option<T> {
        let mut lhs = self.unary()?;
        loop {
            let mut op = match self.peek() { Some(o) => o.to_string(), None => break };
            let mut neg = false;
            if op == "NOT" && self.t.get(self.i + 1).map(|s| s.as_str()) == Some("BETWEEN") { neg = true; op = "BETWEEN".into(); }
            let p = match prec(self.e, &op) { Some(p) if op != "NOT" => p, _ => break };
            if p < min { break; }
            self.i += if neg { 2 } else { 1 };
            if op == "BETWEEN" {
                let lo = self.expr(p + 1)?;
                if self.peek()? != "AND" { return None; }
                self.i += 1;
                let hi = self.expr(p + 1)?;
                lhs = T::Btw(neg, Box::new(lhs), Box::new(lo), Box::new(hi));
            } else {
                let rhs = self.expr(p + 1)?;
                if nonassoc(self.e, &op) { if let Some(n) = self.peek() { if prec(self.e, n) == Some(p) { return None; } } }
                let name = OPS.iter().find(|o| o.0 == op)?.0;
                lhs = T::Bin(name, Box::new(lhs), Box::new(rhs));
            }
        }
        Some(lhs)
    }
    fn unary(&mut self) -> Option<T> {
        let t = self.peek()?.to_string();
        if t == "NOT" { self.i += 1; let x = self.expr(prec(self.e, "NOT")?)?; return Some(T::Not(Box::new(x))); }
        self.i += 1;
        if t == "(" { let x = self.expr(0)?; if self.peek()? != ")" { return None; } self.i += 1; return Some(x); }
        match t.as_str() { "a" => Some(T::Atom("a")), "b" => Some(T::Atom("b")), "c" => Some(T::Atom("c")), "d" => Some(T::Atom("d")), _ => None }
    }
}

fn check(t: &T) -> Option<Witness> {
    let q = Query::select().expr(build(t)).to_owned();
    let wrap = WRAP.load(std::sync::atomic::Ordering::Relaxed);
    for (e, (name, sql)) in [("mysql", q.to_string(MysqlQueryBuilder)), ("postgres", q.to_string(PostgresQueryBuilder)), ("sqlite", q.to_string(SqliteQueryBuilder))].into_iter().enumerate() {
        if wrap && e == 1 { continue; }   // Postgres spells the cast CAST(.. AS "e"): self-delimiting, not part of this oracle
        let text = sql.strip_prefix("SELECT ").unwrap_or(&sql);
        let mut p = P { t: lex(text), i: 0, e };
        let got = p.expr(0).filter(|_| p.i == p.t.len());
        if got.as_ref() != Some(t) {
            return Some(Witness { property: "C05", input: format!("{}{t:?}", if wrap { "as_enum-wrapped operands: " } else { "" }), observed: format!("{name}: `{text}` re-parses as {got:?}"), expected: "the tree that was built".into() });
        }
    }
    None
}

fn gen(depth: usize) -> Vec<T> {
    let atoms = vec![T::Atom("a"), T::Atom("b"), T::Atom("c")];
    if depth == 0 { return atoms; }
    let sub = gen(depth - 1);
    let small: Vec<T> = if depth >= 2 { sub.iter().step_by(sub.len() / 40 + 1).cloned().collect() } else { sub.clone() };
    let mut v = atoms;
    for x in &small { v.push(T::Not(Box::new(x.clone()))); }
    for (op, _) in OPS { for l in &small { for r in small.iter().take(if depth >= 2 { 12 } else { 3 }) { v.push(T::Bin(op, Box::new(l.clone()), Box::new(r.clone()))); } } }
    for neg in [false, true] { for x in small.iter().take(6) { for lo in small.iter().take(10) { for hi in small.iter().take(4) { v.push(T::Btw(neg, Box::new(x.clone()), Box::new(lo.clone()), Box::new(hi.clone()))); } } } }
    v
}

pub fn search(_obl: &str) -> Vec<Witness> {
    std::panic::set_hook(Box::new(|_| {}));
    let mut found = vec![];
    // every (outer, inner, side) pair of binary operators, NOT and BETWEEN on either side
    let (a, b, c) = (T::Atom("a"), T::Atom("b"), T::Atom("c"));
    let mut pairs: Vec<T> = vec![];
    for (o, _) in OPS { for (i, _) in OPS {
        pairs.push(T::Bin(o, Box::new(T::Bin(i, Box::new(a.clone()), Box::new(b.clone()))), Box::new(c.clone())));
        pairs.push(T::Bin(o, Box::new(a.clone()), Box::new(T::Bin(i, Box::new(b.clone()), Box::new(c.clone())))));
    } }
    for (i, _) in OPS {
        let inner = T::Bin(i, Box::new(a.clone()), Box::new(b.clone()));
        pairs.push(T::Not(Box::new(inner.clone())));
        for neg in [false, true] {
            pairs.push(T::Btw(neg, Box::new(inner.clone()), Box::new(b.clone()), Box::new(c.clone())));
            pairs.push(T::Btw(neg, Box::new(a.clone()), Box::new(inner.clone()), Box::new(c.clone())));
            pairs.push(T::Btw(neg, Box::new(a.clone()), Box::new(b.clone()), Box::new(inner.clone())));
        }
        pairs.push(T::Bin(i, Box::new(T::Not(Box::new(a.clone()))), Box::new(b.clone())));
        pairs.push(T::Bin(i, Box::new(a.clone()), Box::new(T::Not(Box::new(b.clone())))));
    }
    for t in pairs.iter() { if let Ok(Some(w)) = std::panic::catch_unwind(|| check(t)) { found.push(w); if found.len() >= 6 { return found; } } }
    WRAP.store(true, std::sync::atomic::Ordering::Relaxed);
    for t in pairs.iter() { if let Ok(Some(w)) = std::panic::catch_unwind(|| check(t)) { found.push(w); if found.len() >= 6 { break; } } }
    WRAP.store(false, std::sync::atomic::Ordering::Relaxed);
    if !found.is_empty() { return found; }
    for t in gen(2) { if let Ok(Some(w)) = std::panic::catch_unwind(|| check(&t)) { found.push(w); if found.len() >= 6 { break; } } }
    found
}
pub fn check_one(_label: &str) -> Option<Witness> { search("").into_iter().next() }
