//! Witness search / replay / trusted-fact validation, linked against the real crate in /repo.
//! This binary NEVER decides a property: it is run after an obligation has failed, to turn the
//! failure into a concrete input on the real code, and on every run to validate the cheap
//! trusted std facts the proofs assume.
mod c01;
mod c03;
mod c04;
mod c05;
mod c06;
mod c07;
mod c08;
mod c09;
mod c10;
mod c11;
mod c13;
mod c14;
mod c15;
mod c16;
mod c17;
mod c19;
mod lexers;
mod trusted;
mod util;

fn main() {
    let args: Vec<String> = std::env::args().collect();
    if args.len() < 2 {
        eprintln!("usage: vreplay <trusted|search PROP [obligation]|replay FILE>");
        std::process::exit(2);
    }
    match args[1].as_str() {
        "trusted" => trusted::run(),
        // candidate SQLite tokens with the value OUR oracle lexers decode them to; the driver asks a real SQLite engine
        // (python's sqlite3) for the value of the same token - validation of the hand-written SQLite oracles
        "oracle-sqlite" => {
            let esc = |s: &str| s.chars().flat_map(|c| match c { '"' => "\\\"".chars().collect::<Vec<_>>(), '\\' => "\\\\".chars().collect(), c if (c as u32) < 0x20 => format!("\\u{:04x}", c as u32).chars().collect(), c => vec![c] }).collect::<String>();
            let alpha = ['\'', '"', 'a', '\\', ' ', 'é', '%', 'x', '0', 'F'];
            let mut n = 0usize;
            util::strings(&alpha, 5, |s| {
                let t: Vec<char> = s.chars().collect();
                if let Some((v, end)) = lexers::sqlite_string_lit(&t) { if end == t.len() { println!("{{\"kind\":\"string\",\"token\":\"{}\",\"value\":\"{}\"}}", esc(s), esc(&v)); n += 1; } }
                if let Some((v, end)) = lexers::quoted_ident(&t, '"') { if end == t.len() && !v.is_empty() { println!("{{\"kind\":\"ident\",\"token\":\"{}\",\"value\":\"{}\"}}", esc(s), esc(&v)); n += 1; } }
                if let Some((v, end)) = lexers::x_blob_lit(&t) { if end == t.len() { println!("{{\"kind\":\"blob\",\"token\":\"{}\",\"value\":\"{}\"}}", esc(s), v.iter().map(|b| format!("{b:02x}")).collect::<String>()); n += 1; } }
                false
            });
            eprintln!("{n} tokens");
        }
        // statements + catalogue queries for a REAL SQLite engine (executed by vlib/engine.py: python's sqlite3)
        "engine-cases" => {
            std::panic::set_hook(Box::new(|_| {}));    // refusals (panic!) of the renderers are expected outcomes of some cases
            let prop = args.get(2).map(|s| s.as_str()).unwrap_or("");
            let cases: Vec<String> = match prop {
                "C13" => c13::cases().iter().map(|c| c.to_json()).collect(),
                "C07" => c07::cases().iter().map(|c| c.to_json()).collect(),
                "C09" => c09::cases(),
                _ => { eprintln!("no engine cases for {prop}"); std::process::exit(2) }
            };
            for c in cases { println!("CASE {c}"); }
        }
        "search" => {
            let prop = args.get(2).map(|s| s.as_str()).unwrap_or("");
            let obl = args.get(3).map(|s| s.as_str()).unwrap_or("");
            let found: Vec<util::Witness> = match prop {
                "C16" => c16::search(obl).into_iter().collect(),
                "C17" => c17::search(obl),
                "C01" | "C02" => c01::search(prop),
                "C03" => c03::search(obl),
                "C04" => c04::search(obl),
                "C05" => c05::search(obl),
                "C06" => c06::search(obl),
                "C08" => c08::search(obl),
                "C10" => c10::search(obl),
                "C11" => c11::search(obl),
                "C15" => c15::search(obl),
                "C14" => c14::search(obl),
                "C19" => c19::search(obl),
                _ => { eprintln!("no witness search for {prop}"); std::process::exit(2) }
            };
            if found.is_empty() { println!("NO-WITNESS"); }
            for w in found { println!("WITNESS {}", w.to_json()); }
        }
        "replay" => {
            let txt = std::fs::read_to_string(&args[2]).expect("replay file");
            let prop = util::json_str(&txt, "property").unwrap_or_default();
            let input = util::json_str(&txt, "input");
            let r = match (prop.as_str(), input) {
                ("C16", Some(i)) => c16::check_one(&i),
                ("C17", Some(i)) => c17::check_one(&i),
                ("C01", Some(i)) => c01::check_one("C01", &i),
                ("C02", Some(i)) => c01::check_one("C02", &i),
                ("C03", Some(i)) => c03::check_one(&i),
                ("C04", Some(i)) => c04::check_one(&i),
                ("C05", Some(i)) => c05::check_one(&i),
                ("C06", Some(i)) => c06::check_one(&i),
                ("C08", Some(i)) => c08::check_one(&i),
                ("C10", Some(i)) => c10::check_one(&i),
                ("C11", Some(i)) => c11::check_one(&i),
                ("C14", Some(i)) => c14::check_one(&i),
                ("C15", Some(i)) => c15::check_one(&i),
                ("C19", Some(i)) => c19::check_one(&i),
                _ => { println!("REPLAY: nothing to re-run (no concrete input in file)"); std::process::exit(0) }
            };
            match r {
                Some(w) => { println!("REPLAY: still fails: {}", w.to_json()); std::process::exit(1) }
                None => { println!("REPLAY: input no longer fails"); std::process::exit(0) }
            }
        }
        _ => std::process::exit(2),
    }
}
