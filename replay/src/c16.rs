//! C16 witness search: real `Tokenizer` vs an executable copy of the oracle (`quoted_end`).
use crate::util::Witness;
use sea_query::{Token, Tokenizer};

const ALPHA: &[char] = &['a', '1', '_', '$', ' ', '\'', '"', '`', '[', ']', '\\', '?', 'é', '\u{a0}', '\u{663}'];

fn delim_start(c: char) -> bool { matches!(c, '`' | '[' | '\'' | '"') }
fn end_for(s: char, c: char) -> bool { matches!((s, c), ('`', '`') | ('[', ']') | ('\'', '\'') | ('"', '"')) }
fn escape_for(s: char, c: char) -> bool { matches!((s, c), ('`', '`') | ('\'', '\'') | ('"', '"')) }

fn quoted_end(ch: &[char], p: usize) -> usize {
    let start = ch[p];
    let (mut i, mut esc) = (p + 1, false);
    loop {
        if i >= ch.len() { return ch.len(); }
        if !esc && end_for(start, ch[i]) {
            if i + 1 >= ch.len() { return i + 1; }
            if escape_for(start, ch[i + 1]) { i += 2; esc = false; } else { return i + 1; }
        } else {
            esc = !esc && ch[i] == '\\';
            i += 1;
        }
    }
}

/// the CONTENT of a quoted token (executable copy of `unq_text`): the characters between the delimiters, a doubled delimiter once
fn unq(ch: &[char]) -> String {
    if ch.is_empty() || !delim_start(ch[0]) { return String::new(); }
    let start = ch[0];
    let (mut i, mut esc, mut out) = (1usize, false, String::new());
    loop {
        if i >= ch.len() { return out; }
        if !esc && end_for(start, ch[i]) {
            if i + 1 >= ch.len() { return out; }
            if escape_for(start, ch[i + 1]) { out.push(ch[i]); i += 2; esc = false; } else { return out; }
        } else {
            esc = !esc && ch[i] == '\\';
            out.push(ch[i]);
            i += 1;
        }
    }
}

/// run the real tokenizer with a fuel bound (so that a non-terminating driver is reported)
fn tokens(s: &str) -> Result<Vec<Token>, String> {
    let mut t = Tokenizer::new(s);
    let mut v = vec![];
    let fuel = s.chars().count() + 2;
    loop {
        if v.len() > fuel { return Err(format!("no termination: more than {fuel} tokens")); }
        match Iterator::next(&mut t) { Some(x) => v.push(x), None => break }
    }
    Ok(v)
}

pub fn check_one(s: &str) -> Option<Witness> {
    let w = |obs: String, exp: &str| Some(Witness { property: "C16", input: s.to_string(), observed: obs, expected: exp.to_string() });
    let toks = match tokens(s) { Ok(t) => t, Err(e) => return w(e, "tokenizing terminates") };
    let cat: String = toks.iter().map(|t| t.to_string()).collect();
    if cat != s { return w(format!("concat = {cat:?} tokens = {toks:?}"), "concatenation of tokens == input"); }
    let ch: Vec<char> = s.chars().collect();
    let mut a = 0usize;
    for t in &toks {
        let n = t.as_str().chars().count();
        if n == 0 { return w(format!("empty token in {toks:?}"), "every token non-empty"); }
        if t.is_quoted() {
            if !delim_start(ch[a]) || a + n != quoted_end(&ch, a) {
                return w(format!("quoted token {t:?} at {a} ends at {} ; tokens = {toks:?}", a + n), &format!("quoted span ends at {}", if delim_start(ch[a]) { quoted_end(&ch, a) } else { 0 }));
            }
            // Token::unquote: the content of exactly that span
            let want = unq(&ch[a..a + n]);
            if t.unquote().as_deref() != Some(want.as_str()) { return w(format!("unquote of {t:?} = {:?}", t.unquote()), &format!("unquote = {want:?}")); }
        } else if ch[a..a + n].iter().any(|&c| delim_start(c)) {
            return w(format!("non-quoted token {t:?} contains an opening delimiter; tokens = {toks:?}"), "opening delimiter outside quotes starts a quoted token");
        }
        a += n;
    }
    None
}

pub fn search(_obl: &str) -> Option<Witness> {
    let mut found = None;
    crate::util::strings(ALPHA, if crate::util::deep() { 7 } else { 6 }, |s| { if let Some(w) = check_one(s) { found = Some(w); true } else { false } });
    found
}
