//! Executable copies of the engine lexers used as oracles (same rules as units/escape/spec.rs).
pub fn mysql_string_lit(t: &[char]) -> Option<(String, usize)> {
    if t.first() != Some(&'\'') { return None; }
    let (mut i, mut acc) = (1, String::new());
    loop {
        let c = *t.get(i)?;
        if c == '\\' {
            let x = *t.get(i + 1)?;
            match x {
                '0' => acc.push('\0'), '\'' => acc.push('\''), '"' => acc.push('"'), 'b' => acc.push('\x08'),
                'n' => acc.push('\n'), 'r' => acc.push('\r'), 't' => acc.push('\t'), 'Z' => acc.push('\x1a'),
                '\\' => acc.push('\\'), '%' => acc.push_str("\\%"), '_' => acc.push_str("\\_"), x => acc.push(x),
            }
            i += 2;
        } else if c == '\'' {
            if t.get(i + 1) == Some(&'\'') { acc.push('\''); i += 2; } else { return Some((acc, i + 1)); }
        } else { acc.push(c); i += 1; }
    }
}
fn plain_body(t: &[char], mut i: usize) -> Option<(String, usize)> {
    let mut acc = String::new();
    loop {
        let c = *t.get(i)?;
        if c == '\'' { if t.get(i + 1) == Some(&'\'') { acc.push('\''); i += 2; } else { return Some((acc, i + 1)); } }
        else { acc.push(c); i += 1; }
    }
}
pub fn sqlite_string_lit(t: &[char]) -> Option<(String, usize)> {
    if t.first() != Some(&'\'') { return None; }
    plain_body(t, 1)
}
/// PostgreSQL 4.1.2.1 / 4.1.2.2 (standard_conforming_strings = on)
pub fn pg_string_lit(t: &[char]) -> Option<(String, usize)> {
    if t.len() > 1 && t[0] == 'E' && t[1] == '\'' {
        let (mut i, mut acc) = (2, String::new());
        loop {
            let c = *t.get(i)?;
            if c == '\\' {
                let x = *t.get(i + 1)?;
                match x {
                    'b' => { acc.push('\x08'); i += 2 } 'f' => { acc.push('\x0c'); i += 2 } 'n' => { acc.push('\n'); i += 2 }
                    'r' => { acc.push('\r'); i += 2 } 't' => { acc.push('\t'); i += 2 }
                    '0'..='7' => { // octal, up to 3 digits
                        let mut v = 0u32; let mut k = i + 1; let mut n = 0;
                        while n < 3 && k < t.len() && ('0'..='7').contains(&t[k]) { v = v * 8 + t[k].to_digit(8).unwrap(); k += 1; n += 1; }
                        if v == 0 { return None; } // NUL is rejected by the server
                        acc.push(char::from_u32(v & 0xff)?); i = k;
                    }
                    'x' => {
                        let mut v = 0u32; let mut k = i + 2; let mut n = 0;
                        while n < 2 && k < t.len() && t[k].is_ascii_hexdigit() { v = v * 16 + t[k].to_digit(16).unwrap(); k += 1; n += 1; }
                        if n == 0 { acc.push('x'); i += 2; } else { if v == 0 { return None; } acc.push(char::from_u32(v)?); i = k; }
                    }
                    'u' | 'U' => {
                        let need = if x == 'u' { 4 } else { 8 };
                        let mut v = 0u32;
                        for k in 0..need { v = v * 16 + t.get(i + 2 + k)?.to_digit(16)?; }
                        acc.push(char::from_u32(v)?); i += 2 + need;
                    }
                    x => { acc.push(x); i += 2 }
                }
            } else if c == '\'' {
                if t.get(i + 1) == Some(&'\'') { acc.push('\''); i += 2; } else { return Some((acc, i + 1)); }
            } else { acc.push(c); i += 1; }
        }
    } else if t.first() == Some(&'\'') { plain_body(t, 1) } else { None }
}
fn hexv(c: char) -> Option<u8> { c.to_digit(16).map(|d| d as u8) }
pub fn x_blob_lit(t: &[char]) -> Option<(Vec<u8>, usize)> {
    if !(t.len() > 1 && (t[0] == 'x' || t[0] == 'X') && t[1] == '\'') { return None; }
    let (mut i, mut acc) = (2, vec![]);
    loop {
        let c = *t.get(i)?;
        if c == '\'' { return Some((acc, i + 1)); }
        acc.push(hexv(c)? * 16 + hexv(*t.get(i + 1)?)?);
        i += 2;
    }
}
pub fn pg_bytea_lit(t: &[char]) -> Option<(Vec<u8>, usize)> {
    let (txt, end) = pg_string_lit(t)?;
    let s: Vec<char> = txt.chars().collect();
    if !(s.len() >= 2 && s[0] == '\\' && s[1] == 'x') { return None; }
    let mut acc = vec![];
    let mut i = 2;
    while i < s.len() { acc.push(hexv(s[i])? * 16 + hexv(*s.get(i + 1)?)?); i += 2; }
    Some((acc, end))
}
/// identifier token quoted with q (MySQL backtick, Postgres/SQLite double quote): qq is one q
pub fn quoted_ident(t: &[char], q: char) -> Option<(String, usize)> {
    if t.first() != Some(&q) { return None; }
    let (mut i, mut acc) = (1, String::new());
    loop {
        let c = *t.get(i)?;
        if c == q { if t.get(i + 1) == Some(&q) { acc.push(q); i += 2; } else { return Some((acc, i + 1)); } }
        else { acc.push(c); i += 1; }
    }
}
