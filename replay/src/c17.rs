//! C17 witness search: unescape_string(escape_string(s)) == s on the three real backends.
use crate::util::Witness;
use sea_query::{EscapeBuilder, MysqlQueryBuilder, PostgresQueryBuilder, SqliteQueryBuilder};

const ALPHA: &[char] = &['a', 'z', 'Z', '0', 'b', 't', 'n', 'r', '\\', '\'', '"', '\0', '\x08', '\t', '\x1a', '\n', '\r', '%', 'é'];

pub fn check_one(s: &str) -> Option<Witness> {
    let bs: [(&str, &dyn EscapeBuilder); 3] = [("mysql", &MysqlQueryBuilder), ("postgres", &PostgresQueryBuilder), ("sqlite", &SqliteQueryBuilder)];
    for (name, b) in bs {
        let e = b.escape_string(s);
        let u = b.unescape_string(&e);
        if u != s {
            return Some(Witness { property: "C17", input: s.to_string(), observed: format!("{name}: escape = {e:?}, unescape(escape) = {u:?}"), expected: format!("{s:?}") });
        }
    }
    None
}

pub fn search(_obl: &str) -> Vec<Witness> {
    let mut found = vec![];
    crate::util::strings(ALPHA, if crate::util::deep() { 5 } else { 4 }, |s| { if let Some(w) = check_one(s) { found.push(w); } found.len() >= 8 });
    found
}
