//! C19 bounded stand-in: types deriving Iden / IdenStatic and structs under #[enum_def], compiled with the REAL macro of
//! /repo/sea-query-derive on every run; every variant's identifier is compared with an independently written snake_case (below, from the
//! word-boundary rules the `heck` documentation states), the `Table` variant with the snake_case of the type name, rename / method /
//! flatten attributes with what they name; and the quoted text the type's own `prepare` writes (the generated fast path for plain names)
//! is compared with the general identifier quoting (`Alias::new(name)`) for the three backends' quotes.  The names are fixed at compile
//! time: a BOUNDED list (stated in the evidence), never counted as proved.
use crate::util::Witness;
use sea_query::{enum_def, Alias, Iden, IdenStatic, Quote};

/// snake_case as the `heck` crate documents it: words are separated at `_` / non-alphanumeric characters, at a lower-case (or digit)
/// character followed by an upper-case one, and inside a run of upper-case characters before the last one when a lower-case character
/// follows (`HTTPServer` = `HTTP` + `Server`); digits never start a word of their own; words are lower-cased and joined by `_`
pub fn snake(s: &str) -> String {
    let cs: Vec<char> = s.chars().collect();
    let (mut words, mut cur): (Vec<String>, String) = (vec![], String::new());
    // the case of the nearest cased letter of the current word: 0 none yet, 1 lower, 2 upper (a digit keeps the case it follows)
    let mut mode = 0u8;
    for i in 0..cs.len() {
        let c = cs[i];
        if !c.is_alphanumeric() { if !cur.is_empty() { words.push(std::mem::take(&mut cur)); } mode = 0; continue; }
        let next_lower = i + 1 < cs.len() && cs[i + 1].is_lowercase();
        if c.is_uppercase() && !cur.is_empty() && (mode == 1 || (mode == 2 && next_lower)) { words.push(std::mem::take(&mut cur)); }
        cur.extend(c.to_lowercase());
        if c.is_lowercase() { mode = 1; } else if c.is_uppercase() { mode = 2; }
    }
    if !cur.is_empty() { words.push(cur); }
    words.join("_")
}

mod types {
    use sea_query::{enum_def, Iden, IdenStatic};
    #[derive(Iden)] pub enum Character { Table, Id, FontId, SizeW, Character, A, AB, ABc, HTTPServer, UserID, Utf8Name, Name2, X2Y, #[iden = "Weird Name"] Renamed, #[iden(rename = "re2")] Renamed2,
        #[method = "custom_name"] ByMethod, #[iden(method = "custom_name")] ByMethod2, Tuple(i32), Named { x: i32 }, #[iden(flatten)] Flat(Inner), #[iden(flatten)] FlatNamed { inner: Inner } }
    impl Character { pub fn custom_name(&self) -> &'static str { "from the method" } }
    #[derive(Iden, Clone, Copy)] pub enum Inner { Table, Leaf, DeepLeafNode }
    #[derive(Iden)] #[iden = "explicit_table"] pub enum RenamedTable { Table, Col }
    #[derive(Iden)] #[iden(rename = "explicit_table2")] pub enum RenamedTable2 { Table, Col }
    #[derive(Iden)] pub enum XMLHttpRequest { Table, ReadyState }
    #[derive(Iden)] pub enum snake_already { Table, lower_variant }
    // a PLAIN variant name whose rename holds both quote characters: the fast path must be decided on the name that is written
    #[derive(Iden)] pub enum QuoteInRename { Table, #[iden = "a\"b`c"] Odd, #[iden(rename = "\"")] Odd2 }
    // the fast path is decided over ALL variants: a quote in an EARLIER rename, a plain LAST variant
    #[derive(Iden)] pub enum QuoteThenPlain { Table, #[iden = "a\"b`c"] Odd, Plain }
    #[derive(IdenStatic, Clone, Copy)] pub enum QuoteThenPlainStatic { Table, #[iden = "a\"b`c"] Odd, Plain }
    // .. and over the name `Table` really spells: a container rename holding the quote characters, `Table` without an attribute of its own
    #[derive(Iden)] #[iden = "led`ger\"x"] pub enum QuoteInContainer { Table, Plain }
    #[derive(IdenStatic, Clone, Copy)] #[iden(rename = "led`ger\"x")] pub enum QuoteInContainerStatic { Table, Plain }
    // a container rename is taken VERBATIM (not snake_cased) for `Table`
    #[derive(Iden)] #[iden = "UserAccount"] pub enum VerbatimContainer { Table, Col }
    #[derive(IdenStatic, Clone, Copy)] #[iden(rename = "UserAccount2")] pub enum VerbatimContainerStatic { Table, Col }
    // every OWN name plain, a flattened variant delegating to a name with quote characters: no fast path may be generated
    #[derive(Iden)] pub enum PlainWithFlatten { Table, Id, #[iden(flatten)] Extra(QuoteInRename) }
    #[derive(Iden)] pub struct UnitStruct;
    #[derive(Iden)] pub struct HTTPUnitV2;
    #[derive(Iden)] #[iden = "renamed unit"] pub struct RenamedUnit;
    #[derive(IdenStatic, Clone, Copy)] pub enum Glyph { Table, Id, AspectRatio, #[iden = "img"] Image, #[iden(rename = "t2")] Tags, ByTuple(i32) }
    #[derive(IdenStatic, Clone, Copy)] pub struct StaticUnitStruct;
    #[derive(IdenStatic, Clone, Copy)] #[iden = "static renamed"] pub struct StaticRenamed;
    #[enum_def] pub struct FontFace { pub id: i32, pub family_name: String, pub size2x: u8 }
    #[enum_def(prefix = "Pre", suffix = "Suf")] pub struct Glyph2 { pub aspect: f32 }
    #[enum_def(table_name = "custom_tbl")] pub struct Whatever { pub a_b_c: i32 }
    #[enum_def(suffix = "Def")] pub struct HTTPLog { pub status_code: u16 }
}

fn quoted_general(name: &str, q: u8) -> String { let mut s = String::new(); Alias::new(name).prepare(&mut s, Quote::new(q)); s }

pub fn search(_obl: &str) -> Vec<Witness> {
    use types::*;
    let mut out: Vec<Witness> = vec![];
    let mut n = 0usize;
    let mut name = |label: &str, got: String, want: String| {
        n += 1;
        if got != want { out.push(Witness { property: "C19", input: label.to_string(), observed: format!("identifier {got:?}"), expected: format!("identifier {want:?}") }); }
    };
    macro_rules! sn { ($ty:ident :: $v:ident) => { name(concat!(stringify!($ty), "::", stringify!($v)), Iden::to_string(&$ty::$v), snake(stringify!($v))); } }
    macro_rules! tbl { ($ty:ident) => { name(concat!(stringify!($ty), "::Table"), Iden::to_string(&$ty::Table), snake(stringify!($ty))); } }
    tbl!(Character); sn!(Character::Id); sn!(Character::FontId); sn!(Character::SizeW); sn!(Character::Character); sn!(Character::A); sn!(Character::AB); sn!(Character::ABc);
    sn!(Character::HTTPServer); sn!(Character::UserID); sn!(Character::Utf8Name); sn!(Character::Name2); sn!(Character::X2Y);
    name("Character::Renamed", Iden::to_string(&Character::Renamed), "Weird Name".into()); name("Character::Renamed2", Iden::to_string(&Character::Renamed2), "re2".into());
    name("Character::ByMethod", Iden::to_string(&Character::ByMethod), "from the method".into()); name("Character::ByMethod2", Iden::to_string(&Character::ByMethod2), "from the method".into());
    name("Character::Tuple", Iden::to_string(&Character::Tuple(1)), snake("Tuple")); name("Character::Named", Iden::to_string(&Character::Named { x: 1 }), snake("Named"));
    name("Character::Flat(Inner::Leaf)", Iden::to_string(&Character::Flat(Inner::Leaf)), snake("Leaf")); name("Character::Flat(Inner::Table)", Iden::to_string(&Character::Flat(Inner::Table)), snake("Inner"));
    name("Character::FlatNamed(Inner::DeepLeafNode)", Iden::to_string(&Character::FlatNamed { inner: Inner::DeepLeafNode }), snake("DeepLeafNode"));
    tbl!(Inner); sn!(Inner::Leaf); sn!(Inner::DeepLeafNode);
    name("RenamedTable::Table", Iden::to_string(&RenamedTable::Table), "explicit_table".into()); sn!(RenamedTable::Col);
    name("RenamedTable2::Table", Iden::to_string(&RenamedTable2::Table), "explicit_table2".into()); sn!(RenamedTable2::Col);
    name("VerbatimContainer::Table", Iden::to_string(&VerbatimContainer::Table), "UserAccount".into()); name("VerbatimContainerStatic::Table", IdenStatic::as_str(&VerbatimContainerStatic::Table).to_string(), "UserAccount2".into());
    name("QuoteInContainer::Table", Iden::to_string(&QuoteInContainer::Table), "led`ger\"x".into()); name("QuoteInContainerStatic::Table", IdenStatic::as_str(&QuoteInContainerStatic::Table).to_string(), "led`ger\"x".into());
    tbl!(XMLHttpRequest); sn!(XMLHttpRequest::ReadyState); tbl!(snake_already); sn!(snake_already::lower_variant);
    name("UnitStruct", Iden::to_string(&UnitStruct), snake("UnitStruct")); name("HTTPUnitV2", Iden::to_string(&HTTPUnitV2), snake("HTTPUnitV2")); name("RenamedUnit", Iden::to_string(&RenamedUnit), "renamed unit".into());
    // IdenStatic: as_str, AsRef<str> and Iden agree
    macro_rules! st { ($label:expr, $v:expr, $want:expr) => { let w: String = $want; name(concat!($label, " as_str"), IdenStatic::as_str(&$v).to_string(), w.clone()); name(concat!($label, " as_ref"), AsRef::<str>::as_ref(&$v).to_string(), w.clone()); name(concat!($label, " to_string"), Iden::to_string(&$v), w); } }
    st!("Glyph::Table", Glyph::Table, snake("Glyph")); st!("Glyph::Id", Glyph::Id, snake("Id")); st!("Glyph::AspectRatio", Glyph::AspectRatio, snake("AspectRatio"));
    st!("Glyph::Image", Glyph::Image, "img".to_string()); st!("Glyph::Tags", Glyph::Tags, "t2".to_string()); st!("Glyph::ByTuple", Glyph::ByTuple(3), snake("ByTuple"));
    st!("StaticUnitStruct", StaticUnitStruct, snake("StaticUnitStruct")); st!("StaticRenamed", StaticRenamed, "static renamed".to_string());
    // #[enum_def]: `Table` = snake_case of the struct name (or table_name = ..), one variant per field (PascalCase) spelling the field's name
    st!("FontFaceIden::Table", FontFaceIden::Table, snake("FontFace")); st!("FontFaceIden::Id", FontFaceIden::Id, "id".to_string()); st!("FontFaceIden::FamilyName", FontFaceIden::FamilyName, "family_name".to_string());
    st!("FontFaceIden::Size2x", FontFaceIden::Size2x, "size2x".to_string());
    st!("PreGlyph2Suf::Table", PreGlyph2Suf::Table, snake("Glyph2")); st!("PreGlyph2Suf::Aspect", PreGlyph2Suf::Aspect, "aspect".to_string());
    st!("WhateverIden::Table", WhateverIden::Table, "custom_tbl".to_string()); st!("WhateverIden::ABC", WhateverIden::ABC, "a_b_c".to_string());
    st!("HTTPLogDef::Table", HTTPLogDef::Table, snake("HTTPLog")); st!("HTTPLogDef::StatusCode", HTTPLogDef::StatusCode, "status_code".to_string());
    // the generated fast path writes the same quoted text as the general identifier quoting
    let mut same = |label: &str, v: &dyn Iden| {
        // an asymmetric pair too (`[name]`): the closing quote is the RIGHT one
        {
            n += 1;
            let (mut s, mut want) = (String::new(), String::new());
            v.prepare(&mut s, Quote::from((b'[', b']'))); Alias::new(v.to_string()).prepare(&mut want, Quote::from((b'[', b']')));
            if s != want { out.push(Witness { property: "C19", input: format!("{label} quote=[]"), observed: format!("prepare writes {s}"), expected: format!("the general quoting {want}") }); }
        }
        for q in [b'`', b'"'] {
            n += 1;
            let mut s = String::new(); v.prepare(&mut s, Quote::new(q));
            let want = quoted_general(&v.to_string(), q);
            if s != want { out.push(Witness { property: "C19", input: format!("{label} quote={}", q as char), observed: format!("prepare writes {s}"), expected: format!("the general quoting {want}") }); }
        }
    };
    same("Character::FontId", &Character::FontId); same("Character::Renamed", &Character::Renamed); same("Character::ByMethod", &Character::ByMethod); same("Character::Flat", &Character::Flat(Inner::Leaf));
    same("Inner::DeepLeafNode", &Inner::DeepLeafNode); same("RenamedUnit", &RenamedUnit); same("UnitStruct", &UnitStruct); same("Glyph::Image", &Glyph::Image); same("StaticRenamed", &StaticRenamed);
    same("QuoteInRename::Odd", &QuoteInRename::Odd); same("QuoteInRename::Odd2", &QuoteInRename::Odd2); same("QuoteInRename::Table", &QuoteInRename::Table);
    same("QuoteThenPlain::Odd", &QuoteThenPlain::Odd); same("QuoteThenPlain::Plain", &QuoteThenPlain::Plain); same("QuoteThenPlainStatic::Odd", &QuoteThenPlainStatic::Odd);
    same("QuoteInContainer::Table", &QuoteInContainer::Table); same("QuoteInContainer::Plain", &QuoteInContainer::Plain); same("QuoteInContainerStatic::Table", &QuoteInContainerStatic::Table);
    same("PlainWithFlatten::Extra(Odd)", &PlainWithFlatten::Extra(QuoteInRename::Odd)); same("PlainWithFlatten::Extra(Odd2)", &PlainWithFlatten::Extra(QuoteInRename::Odd2)); same("PlainWithFlatten::Id", &PlainWithFlatten::Id);
    same("FontFaceIden::FamilyName", &FontFaceIden::FamilyName); same("XMLHttpRequest::Table", &XMLHttpRequest::Table);
    eprintln!("C19: {n} derived identifiers / quoted texts compared");
    out
}

pub fn check_one(label: &str) -> Option<Witness> { search("").into_iter().find(|w| w.input == label) }
