//! C03 witness search: inlined text / char / bytes literals on the real backends vs the engine lexers.
use crate::lexers::*;
use crate::util::Witness;
use sea_query::{MysqlQueryBuilder, PostgresQueryBuilder, QueryBuilder, SqliteQueryBuilder, Value};

const ALPHA: &[char] = &['a', 'z', 'Z', '0', '7', 'x', '\\', '\'', '"', '\0', '\x08', '\t', '\x1a', '\n', '\r', '%', '_', 'é', '\u{141}'];

fn lit_ok(name: &str, out: &str, want: &str) -> Result<(), String> {
    // the literal followed by arbitrary non-quote text must lex as ONE token decoding to `want`
    for rest in ["", " x", ")", ";--"] {
        let t: Vec<char> = out.chars().chain(rest.chars()).collect();
        let r = match name { "mysql" => mysql_string_lit(&t), "postgres" => pg_string_lit(&t), _ => sqlite_string_lit(&t) };
        match r {
            Some((v, end)) if v == want && end == out.chars().count() => {}
            other => return Err(format!("{name}: literal {out:?} lexes as {other:?}")),
        }
    }
    Ok(())
}

pub fn check_value(v: &Value, text: Option<&str>, bytes: Option<&[u8]>, label: &str) -> Option<Witness> {
    let bs: [(&str, &dyn QueryBuilder); 3] = [("mysql", &MysqlQueryBuilder), ("postgres", &PostgresQueryBuilder), ("sqlite", &SqliteQueryBuilder)];
    for (name, b) in bs {
        let out = match std::panic::catch_unwind(std::panic::AssertUnwindSafe(|| b.value_to_string(v))) {
            Ok(o) => o,
            Err(_) => return Some(Witness { property: "C03", input: label.to_string(), observed: format!("{name}: value_to_string panicked"), expected: "a literal".into() }),
        };
        if let Some(s) = text {
            if name != "mysql" && s.contains('\0') { continue; } // NUL has no representation there
            if let Err(e) = lit_ok(name, &out, s) {
                return Some(Witness { property: "C03", input: label.to_string(), observed: e, expected: format!("one literal token decoding to {s:?}") });
            }
        }
        if let Some(bv) = bytes {
            let t: Vec<char> = out.chars().chain(" x".chars()).collect();
            let r = if name == "postgres" { pg_bytea_lit(&t) } else { x_blob_lit(&t) };
            match r {
                Some((v2, end)) if v2 == bv && end == out.chars().count() => {}
                other => return Some(Witness { property: "C03", input: label.to_string(), observed: format!("{name}: blob literal {out:?} lexes as {other:?}"), expected: format!("{bv:?}") }),
            }
        }
    }
    None
}

pub fn check_one(label: &str) -> Option<Witness> {
    // label: "str:<text>" | "char:<c>" | "bytes:<hex>"
    if let Some(s) = label.strip_prefix("str:") { return check_value(&Value::from(s), Some(s), None, label); }
    if let Some(s) = label.strip_prefix("char:") { let c = s.chars().next()?; return check_value(&Value::from(c), Some(&c.to_string()), None, label); }
    if let Some(h) = label.strip_prefix("bytes:") {
        let b: Vec<u8> = (0..h.len() / 2).map(|i| u8::from_str_radix(&h[2 * i..2 * i + 2], 16).unwrap()).collect();
        return check_value(&Value::from(b.clone()), None, Some(&b), label);
    }
    None
}

pub fn search(_obl: &str) -> Vec<Witness> {
    std::panic::set_hook(Box::new(|_| {}));
    let mut found: Vec<Witness> = vec![];
    for &c in ALPHA { if let Some(w) = check_one(&format!("char:{c}")) { found.push(w); } }
    for u in [0x80u32, 0xe9, 0xff, 0x100, 0x141, 0x1F600] { if let Some(c) = char::from_u32(u) { if let Some(w) = check_one(&format!("char:{c}")) { found.push(w); } } }
    crate::util::strings(ALPHA, 3, |s| { if let Some(w) = check_one(&format!("str:{s}")) { found.push(w); } found.len() >= 12 });
    for b in 0u16..256 { if let Some(w) = check_one(&format!("bytes:{:02x}", b)) { found.push(w); } }
    for h in ["", "0001", "27275c78", "ff00ff", "deadbeef"] { if let Some(w) = check_one(&format!("bytes:{h}")) { found.push(w); } }
    found.truncate(16);
    found
}
