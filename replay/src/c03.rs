//! C03 witness search: inlined text / char / bytes literals on the real backends vs the engine lexers.
use crate::lexers::*;
use crate::util::Witness;
use sea_query::{MysqlQueryBuilder, PostgresQueryBuilder, QueryBuilder, SqliteQueryBuilder, Value};

const ALPHA: &[char] = &['a', 'z', 'Z', '0', '7', 'x', '\\', '\'', '"', '\0', '\x08', '\t', '\x1a', '\n', '\r', '%', '_', 'é', '\u{141}'];

fn lit_ok(name: &str, out: &str, want: &str) -> Result<(), String> {
    // the literal followed by arbitrary non-quote text must lex as ONE token decoding to `want`
    for rest in ["", " x", ")", ";--"] {
        let t: Vec<char> = out.chars().chain(rest.chars()).collect();
        let r = match name { "mysql" => mysql_string_lit(&t), "postgres" => pg_string_lit(&t), _ => sqlite_string_lit(&t) };
        match r {
            Some((v, end)) if v == want && end == out.chars().count() => {}
            other => return Err(format!("{name}: literal {out:?} lexes as {other:?}")),
        }
    }
    Ok(())
}

pub fn check_value(v: &Value, text: Option<&str>, bytes: Option<&[u8]>, label: &str) -> Option<Witness> {
    let bs: [(&str, &dyn QueryBuilder); 3] = [("mysql", &MysqlQueryBuilder), ("postgres", &PostgresQueryBuilder), ("sqlite", &SqliteQueryBuilder)];
    for (name, b) in bs {
        let out = match std::panic::catch_unwind(std::panic::AssertUnwindSafe(|| b.value_to_string(v))) {
            Ok(o) => o,
            Err(_) => return Some(Witness { property: "C03", input: label.to_string(), observed: format!("{name}: value_to_string panicked"), expected: "a literal".into() }),
        };
        if let Some(s) = text {
            if name != "mysql" && s.contains('\0') { continue; } // NUL has no representation there
            if let Err(e) = lit_ok(name, &out, s) {
                return Some(Witness { property: "C03", input: label.to_string(), observed: e, expected: format!("one literal token decoding to {s:?}") });
            }
        }
        if let Some(bv) = bytes {
            let t: Vec<char> = out.chars().chain(" x".chars()).collect();
            let r = if name == "postgres" { pg_bytea_lit(&t) } else { x_blob_lit(&t) };
            match r {
                Some((v2, end)) if v2 == bv && end == out.chars().count() => {}
                other => return Some(Witness { property: "C03", input: label.to_string(), observed: format!("{name}: blob literal {out:?} lexes as {other:?}"), expected: format!("{bv:?}") }),
            }
        }
    }
    None
}

pub fn check_one(label: &str) -> Option<Witness> {
    // label: "str:<text>" | "char:<c>" | "bytes:<hex>"
    if let Some(s) = label.strip_prefix("schema:") { return check_schema(s); }
    if let Some(s) = label.strip_prefix("str:") { return check_value(&Value::from(s), Some(s), None, label); }
    if let Some(s) = label.strip_prefix("char:") { let c = s.chars().next()?; return check_value(&Value::from(c), Some(&c.to_string()), None, label); }
    if let Some(h) = label.strip_prefix("bytes:") {
        let b: Vec<u8> = (0..h.len() / 2).map(|i| u8::from_str_radix(&h[2 * i..2 * i + 2], 16).unwrap()).collect();
        return check_value(&Value::from(b.clone()), None, Some(&b), label);
    }
    None
}

/// schema positions: DEFAULT, COMMENT, ENUM labels, CREATE / ALTER TYPE labels - the statement text must contain a literal
/// token (for that engine) that decodes to the value
fn literals(sql: &str, name: &str) -> Vec<String> {
    let t: Vec<char> = sql.chars().collect();
    let (mut i, mut out) = (0, vec![]);
    while i < t.len() {
        let c = t[i];
        if c == '"' || c == '`' { let q = c; i += 1; while i < t.len() && t[i] != q { i += 1; } i += 1; continue; }
        let start = if c == '\'' { Some(i) } else if c == 'E' && t.get(i + 1) == Some(&'\'') && (i == 0 || !t[i - 1].is_alphanumeric()) { Some(i) } else { None };
        if let Some(st) = start {
            let r = match name { "mysql" => mysql_string_lit(&t[st..]), "postgres" => pg_string_lit(&t[st..]), _ => sqlite_string_lit(&t[st..]) };
            match r { Some((v, n)) => { out.push(v); i = st + n; } None => { out.push("<unterminated literal>".into()); break; } }
            continue;
        }
        i += 1;
    }
    out
}
pub fn check_schema(s: &str) -> Option<Witness> {
    use sea_query::*;
    let a = |x: &str| Alias::new(x);
    let mut cases: Vec<(&str, &str, String)> = vec![];
    let t1 = Table::create().table(a("t")).col(ColumnDef::new(a("c")).string().default(s)).to_owned();
    cases.push(("column DEFAULT", "mysql", t1.to_string(MysqlQueryBuilder))); cases.push(("column DEFAULT", "postgres", t1.to_string(PostgresQueryBuilder))); cases.push(("column DEFAULT", "sqlite", t1.to_string(SqliteQueryBuilder)));
    let t2 = Table::create().table(a("t")).col(ColumnDef::new(a("c")).integer().comment(s)).comment(s).to_owned();
    cases.push(("column / table COMMENT", "mysql", t2.to_string(MysqlQueryBuilder)));
    let t3 = Table::create().table(a("t")).col(ColumnDef::new(a("c")).enumeration(a("e"), [a(s), a("other")])).to_owned();
    cases.push(("ENUM label", "mysql", t3.to_string(MysqlQueryBuilder)));
    let ty = extension::postgres::Type::create().as_enum(a("e")).values([a(s), a("other")]).to_owned();
    cases.push(("CREATE TYPE label", "postgres", ty.to_string(PostgresQueryBuilder)));
    let ta = extension::postgres::Type::alter().name(a("e")).add_value(a(s)).to_owned();
    cases.push(("ALTER TYPE ADD VALUE", "postgres", ta.to_string(PostgresQueryBuilder)));
    // RENAME VALUE: the old and the new label, one hostile label per statement
    let tr = extension::postgres::Type::alter().name(a("e")).rename_value(a(s), a("plain")).to_owned();
    cases.push(("ALTER TYPE RENAME VALUE (old label)", "postgres", tr.to_string(PostgresQueryBuilder)));
    let tr = extension::postgres::Type::alter().name(a("e")).rename_value(a("plain"), a(s)).to_owned();
    cases.push(("ALTER TYPE RENAME VALUE (new label)", "postgres", tr.to_string(PostgresQueryBuilder)));
    // one inline position per statement (a second literal of the same value would mask a broken one)
    let q = Query::select().column(a("c")).from(a("t")).and_where(Expr::col(a("c")).like(LikeExpr::new(s).escape('!'))).to_owned();
    cases.push(("LIKE pattern", "mysql", q.to_string(MysqlQueryBuilder))); cases.push(("LIKE pattern", "postgres", q.to_string(PostgresQueryBuilder))); cases.push(("LIKE pattern", "sqlite", q.to_string(SqliteQueryBuilder)));
    let q = Query::select().column(a("c")).from(a("t")).order_by(a("c"), Order::Field(Values(vec![1.into(), s.into()]))).to_owned();
    cases.push(("ORDER BY FIELD", "mysql", q.to_string(MysqlQueryBuilder))); cases.push(("ORDER BY FIELD", "postgres", q.to_string(PostgresQueryBuilder))); cases.push(("ORDER BY FIELD", "sqlite", q.to_string(SqliteQueryBuilder)));
    let q = |tpl: &str| Query::select().expr(Expr::cust_with_values(tpl, [s])).expr(Expr::val(s)).to_owned();
    cases.push(("value / custom value", "mysql", q("?").to_string(MysqlQueryBuilder))); cases.push(("value / custom value", "postgres", q("$1").to_string(PostgresQueryBuilder))); cases.push(("value / custom value", "sqlite", q("?").to_string(SqliteQueryBuilder)));
    for (pos, name, sql) in cases {
        if name != "mysql" && s.contains('\0') { continue; }
        let lits = literals(&sql, name);
        let want = if pos == "value / custom value" { 2 } else { 1 };
        if lits.iter().filter(|l| *l == s).count() < want {
            return Some(Witness { property: "C03", input: format!("schema:{s}"), observed: format!("{pos} [{name}]: {sql}  -- literals decode to {lits:?}"), expected: format!("a literal decoding to {s:?}") });
        }
    }
    None
}

pub fn search(_obl: &str) -> Vec<Witness> {
    std::panic::set_hook(Box::new(|_| {}));
    let mut found: Vec<Witness> = vec![];
    for s in ["it's", "a\\b", "x'); DROP TABLE t; --", "q\"q", "tab\there", "é'"] {
        if let Ok(Some(w)) = std::panic::catch_unwind(|| check_schema(s)) { found.push(w); }
    }
    for &c in ALPHA { if let Some(w) = check_one(&format!("char:{c}")) { found.push(w); } }
    for u in [0x80u32, 0xe9, 0xff, 0x100, 0x141, 0x1F600] { if let Some(c) = char::from_u32(u) { if let Some(w) = check_one(&format!("char:{c}")) { found.push(w); } } }
    crate::util::strings(ALPHA, if crate::util::deep() { 4 } else { 3 }, |s| { if let Some(w) = check_one(&format!("str:{s}")) { found.push(w); } found.len() >= 12 });
    for b in 0u16..256 { if let Some(w) = check_one(&format!("bytes:{:02x}", b)) { found.push(w); } }
    for h in ["", "0001", "27275c78", "ff00ff", "deadbeef"] { if let Some(w) = check_one(&format!("bytes:{h}")) { found.push(w); } }
    found.truncate(16);
    found
}
