pub struct Witness {
    pub property: &'static str,
    pub input: String,
    pub observed: String,
    pub expected: String,
}

pub fn esc(s: &str) -> String {
    let mut o = String::new();
    for c in s.chars() {
        match c {
            '"' => o.push_str("\\\""),
            '\\' => o.push_str("\\\\"),
            '\n' => o.push_str("\\n"),
            '\r' => o.push_str("\\r"),
            '\t' => o.push_str("\\t"),
            c if (c as u32) < 0x20 => o.push_str(&format!("\\u{:04x}", c as u32)),
            c => o.push(c),
        }
    }
    o
}

impl Witness {
    pub fn to_json(&self) -> String {
        format!(
            "{{\"property\":\"{}\",\"input\":\"{}\",\"observed\":\"{}\",\"expected\":\"{}\"}}",
            self.property, esc(&self.input), esc(&self.observed), esc(&self.expected)
        )
    }
}

pub fn emit(w: Option<Witness>) {
    match w {
        Some(w) => println!("WITNESS {}", w.to_json()),
        None => println!("NO-WITNESS"),
    }
}

/// minimal JSON string field reader (flat objects written by ./check)
pub fn json_str(txt: &str, key: &str) -> Option<String> {
    let pat = format!("\"{}\"", key);
    let i = txt.find(&pat)?;
    let rest = &txt[i + pat.len()..];
    let c = rest.find(':')?;
    let rest = rest[c + 1..].trim_start();
    if !rest.starts_with('"') { return None; }
    let mut out = String::new();
    let mut it = rest[1..].chars();
    while let Some(ch) = it.next() {
        match ch {
            '"' => return Some(out),
            '\\' => match it.next()? {
                'n' => out.push('\n'), 'r' => out.push('\r'), 't' => out.push('\t'),
                'u' => { let h: String = (0..4).filter_map(|_| it.next()).collect(); out.push(char::from_u32(u32::from_str_radix(&h, 16).ok()?)?) }
                c => out.push(c),
            },
            c => out.push(c),
        }
    }
    None
}

/// thorough tier (VREPLAY_DEEP=1): deeper bounds in every search (stated in each module)
pub fn deep() -> bool { std::env::var("VREPLAY_DEEP").map(|v| v == "1").unwrap_or(false) }

/// all strings over `alpha` up to length `max` (shortest first)
pub fn strings(alpha: &[char], max: usize, mut f: impl FnMut(&str) -> bool) {
    let mut idx: Vec<usize> = vec![];
    loop {
        let s: String = idx.iter().map(|&i| alpha[i]).collect();
        if f(&s) { return; }
        // increment
        let mut k = idx.len();
        loop {
            if k == 0 { idx = vec![0; idx.len() + 1]; break; }
            k -= 1;
            if idx[k] + 1 < alpha.len() { idx[k] += 1; for j in k + 1..idx.len() { idx[j] = 0; } break; }
        }
        if idx.len() > max { return; }
    }
}
