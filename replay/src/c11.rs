//! C11 witness search: custom SQL templates with values on the three real backends vs an independent character-level
//! oracle; inject_parameters(build(stmt)) == to_string(stmt) over the C01 corpus.
use crate::util::Witness;
use sea_query::*;

const PIECES: &[&str] = &["a", " ", "?", "??", "$1", "$2", "$$", "$x", "$tag$", "'q?$1'", "\"i?\"", "=", "1", "?,?", "(", ")", "m[i[1]]", "?OR", "@>", "#>>", "é", "ß_"];

/// what the template must render to, by the property's rules, scanning characters (quotes: ' " ` with doubling)
fn oracle(t: &str, vals: &[String], numbered: bool) -> Option<String> {
    let c: Vec<char> = t.chars().collect();
    let (mut i, mut out, mut k) = (0usize, String::new(), 0usize);
    let mark = if numbered { '$' } else { '?' };
    let mut prev_ident = false;
    while i < c.len() {
        let ch = c[i];
        if ch == '\'' || ch == '"' || ch == '`' {
            out.push(ch); i += 1;
            while i < c.len() { out.push(c[i]); if c[i] == ch { if c.get(i + 1) == Some(&ch) { out.push(ch); i += 2; continue; } i += 1; break; } i += 1; }
            prev_ident = false;
        } else if ch == mark && !(prev_ident && ch == '$') {
            if c.get(i + 1) == Some(&mark) { out.push(mark); i += 2; }
            else if numbered {
                let mut j = i + 1; while j < c.len() && (c[j].is_alphanumeric() || c[j] == '_' || c[j] == '$') { j += 1; }
                let word: String = c[i + 1..j].iter().collect();
                if !word.is_empty() && word.chars().next().unwrap().is_alphanumeric() {
                    match word.parse::<usize>() { Ok(n) => { out.push_str(vals.get(n.checked_sub(1)?)?); i = j; } Err(_) => { out.push(mark); i += 1; } }
                } else { out.push_str(vals.get(k)?); k += 1; i += 1; }
            } else { out.push_str(vals.get(k)?); k += 1; i += 1; }
            prev_ident = false;
        } else { out.push(ch); prev_ident = ch.is_alphanumeric() || ch == '_' || (prev_ident && ch == '$'); i += 1; }
    }
    Some(out)
}

fn check_template(t: &str) -> Option<Witness> {
    // every way of building the fragment: cust_with_values with three values / with NO value (templates that consume none),
    // cust_with_exprs, cust_with_expr (one value)
    for (how, nvals) in [("cust_with_values", 3usize), ("cust_with_values", 0), ("cust_with_exprs", 3), ("cust_with_expr", 1)] {
        let vals: Vec<i32> = [10, 20, 30][..nvals].to_vec();
        let lits: Vec<String> = vals.iter().map(|v| v.to_string()).collect();
        let bs: [(&str, &dyn QueryBuilder, bool); 3] = [("mysql", &MysqlQueryBuilder, false), ("postgres", &PostgresQueryBuilder, true), ("sqlite", &SqliteQueryBuilder, false)];
        for (name, qb, numbered) in bs {
            let want = match oracle(t, &lits, numbered) { Some(w) => w, None => continue }; // designates a value that was not supplied
            let e = match how {
                "cust_with_values" => Expr::cust_with_values(t, vals.clone()),
                "cust_with_exprs" => Expr::cust_with_exprs(t, vals.iter().map(|v| Expr::val(*v).into()).collect::<Vec<SimpleExpr>>()),
                _ => Expr::cust_with_expr(t, Expr::val(vals[0])),
            };
            let q = Query::select().expr(e).to_owned();
            let label = if how == "cust_with_values" && nvals == 3 { t.to_string() } else { format!("{how}/{nvals}: {t}") };
            let got = match std::panic::catch_unwind(std::panic::AssertUnwindSafe(|| { let mut s = String::new(); q.build_collect_any_into(qb, &mut s); s })) {
                Ok(s) => s, Err(_) => return Some(Witness { property: "C11", input: label, observed: format!("{name}: panicked"), expected: want }) };
            let got = got.strip_prefix("SELECT ").unwrap_or(&got).to_string();
            if got != want { return Some(Witness { property: "C11", input: label, observed: format!("{name}: {got:?}"), expected: format!("{want:?}") }); }
        }
    }
    None
}

pub fn search(_obl: &str) -> Vec<Witness> {
    std::panic::set_hook(Box::new(|_| {}));
    let mut found = vec![];
    let n = PIECES.len();
    for len in 1..=(if crate::util::deep() { 5usize } else { 4usize }) {
        let mut idx = vec![0usize; len];
        loop {
            let t: String = idx.iter().map(|&i| PIECES[i]).collect();
            if let Some(w) = check_template(&t) { found.push(w); if found.len() >= 6 { return found; } }
            let mut k = len; let mut done = true;
            while k > 0 { k -= 1; if idx[k] + 1 < n { idx[k] += 1; for j in k + 1..len { idx[j] = 0; } done = false; break; } }
            if done { break; }
        }
    }
    // inject_parameters(build(s)) == to_string(s)
    let bs: [(&str, &dyn QueryBuilder); 3] = [("mysql", &MysqlQueryBuilder), ("postgres", &PostgresQueryBuilder), ("sqlite", &SqliteQueryBuilder)];
    for (label, f) in crate::c01::corpus() {
        if label.contains("select#") && label.len() > 10 { continue; }
        for (name, qb) in bs {
            if let Ok((sql, vals, inl)) = std::panic::catch_unwind(std::panic::AssertUnwindSafe(|| f(qb))) {
                if sql.contains("'it''s ?'") || sql.contains("it\\'s ?") { /* literal mark inside quotes: fine, it is a Quoted token */ }
                let r = std::panic::catch_unwind(std::panic::AssertUnwindSafe(|| inject_parameters(&sql, vals.0.clone(), qb)));
                match r {
                    Ok(s) if s == inl => {}
                    other => { found.push(Witness { property: "C11", input: format!("inject:{label}"), observed: format!("{name}: inject_parameters({sql:?}) = {other:?}"), expected: inl }); if found.len() >= 6 { return found; } }
                }
            }
        }
    }
    // built SQL that carries a `$` which is NOT a placeholder (from a doubled `$$`, a `$tag$`, plain custom SQL): inject_parameters must leave it alone.
    // Postgres only: on the `?` backends a literal `?` produced by `??` cannot be told from a placeholder afterwards (documented limit of the escape)
    let pg_templates: Vec<(&str, SimpleExpr)> = vec![
        ("$1 $$ $2", Expr::cust_with_values("$1 $$ $2", ["a", "b"])), ("$$draft$$ (no values)", Expr::cust("$$draft$$")), ("$tag$ $1", Expr::cust_with_values("$tag$ $1 $tag$", [7])),
        ("$1@>$2", Expr::cust_with_values("$1@>$2", ["[1,2]", "[2]"])), ("x $ y", Expr::cust("x $ y")), ("$1::text || '$'", Expr::cust_with_values("$1::text || '$'", [1]))];
    for (lab, e) in pg_templates {
        let q = Query::select().expr(e).and_where(Expr::col(Alias::new("k")).eq(5)).to_owned();
        let (sql, vals) = q.build(PostgresQueryBuilder);
        let inl = q.to_string(PostgresQueryBuilder);
        let r = std::panic::catch_unwind(std::panic::AssertUnwindSafe(|| inject_parameters(&sql, vals.0.clone(), &PostgresQueryBuilder)));
        match r {
            Ok(s) if s == inl => {}
            other => { found.push(Witness { property: "C11", input: format!("inject-pg:{lab}"), observed: format!("postgres: inject_parameters({sql:?}) = {other:?}"), expected: inl }); if found.len() >= 6 { return found; } }
        }
    }
    // a placeholder designates a supplied EXPRESSION: it must be replaced by that expression AS THE BACKEND RENDERS IT (oracle: the same
    // expression rendered on its own by the same backend) - in particular through the backend's own overrides (Postgres: enum casts)
    let exprs: Vec<(&str, SimpleExpr)> = vec![
        ("enum cast", Expr::val("happy").as_enum(Alias::new("mood"))), ("column", Expr::col(Alias::new("c")).into()), ("sum", Expr::col(Alias::new("a")).add(1)),
        ("function", Func::lower(Expr::col(Alias::new("c"))).into()), ("text", Expr::val("it's").into())];
    for (lab, e) in exprs {
        for (tpl, how) in [("f($1) = $1", "numbered"), ("f(?) = ?", "positional")] {
            let alone = |b: usize| match b { 0 => Query::select().expr(e.clone()).to_owned().to_string(MysqlQueryBuilder), 1 => Query::select().expr(e.clone()).to_owned().to_string(PostgresQueryBuilder), _ => Query::select().expr(e.clone()).to_owned().to_string(SqliteQueryBuilder) };
            for b in 0..3usize {
                if (how == "numbered") != (b == 1) { continue; }
                let own = alone(b); let own = own.strip_prefix("SELECT ").unwrap_or(&own).to_string();
                let vals: Vec<SimpleExpr> = if how == "numbered" { vec![e.clone()] } else { vec![e.clone(), e.clone()] };
                let q = Query::select().expr(Expr::cust_with_exprs(tpl, vals)).to_owned();
                let got = match b { 0 => q.to_string(MysqlQueryBuilder), 1 => q.to_string(PostgresQueryBuilder), _ => q.to_string(SqliteQueryBuilder) };
                let want = format!("SELECT f({own}) = {own}");
                if got != want { found.push(Witness { property: "C11", input: format!("expr-value:{lab} in `{tpl}` [{}]", ["mysql", "postgres", "sqlite"][b]), observed: got, expected: want }); if found.len() >= 6 { return found; } }
            }
        }
    }
    found
}
pub fn check_one(label: &str) -> Option<Witness> { if label.starts_with("inject:") || label.starts_with("inject-pg:") || label.starts_with("expr-value:") { search("").into_iter().find(|w| w.input == label) } else {
    std::panic::set_hook(Box::new(|_| {}));
    let t = if label.starts_with("cust_with_") { label.split_once(": ").map(|x| x.1).unwrap_or(label) } else { label };
    check_template(t)
} }
