//! C10 witness search: call histories on the real InsertStatement (columns / values / select_from / or_default_values),
//! up to 4 calls, 0..2 columns, rows of 0..3 cells.
use crate::util::Witness;
use sea_query::*;

#[derive(Clone, Copy, Debug)]
enum Op { Columns(usize), Values(usize), SelectFrom(usize), SelectStar(usize), Default, ValuesFrom(usize, usize) }

fn label(h: &[Op]) -> String {
    h.iter().map(|o| match o { Op::Columns(k) => format!("columns({k})"), Op::Values(k) => format!("values({k})"), Op::SelectFrom(k) => format!("select_from({k})"), Op::SelectStar(k) => format!("select_from(* + {} more)", k.saturating_sub(1)), Op::Default => "or_default_values()".into(), Op::ValuesFrom(x, y) => format!("values_from_panic({x},{y})") }).collect::<Vec<_>>().join(";")
}
fn cols(k: usize) -> Vec<Alias> { (0..k).map(|i| Alias::new(["a", "b", "c"][i])).collect() }
fn row(k: usize, base: i32) -> Vec<SimpleExpr> { (0..k).map(|i| Expr::val(base * 10 + i as i32).into()) .collect() }

fn check(h: &[Op]) -> Option<Witness> {
    let lab = label(h);
    let w = |obs: String, exp: &str| Some(Witness { property: "C10", input: lab.clone(), observed: obs, expected: exp.to_string() });
    let mut s = Query::insert();
    s.into_table(Alias::new("t"));
    let (mut ncols, mut rows, mut select): (usize, Vec<usize>, Option<usize>) = (0, vec![], None);
    for (i, op) in h.iter().enumerate() {
        let before = s.clone();
        match *op {
            Op::Columns(k) => { s.columns(cols(k)); ncols = k; }
            Op::Values(k) => {
                let r = s.values(row(k, i as i32 + 1)).map(|_| ());
                if (k == ncols) != r.is_ok() { return w(format!("call {i}: values({k}) with {ncols} columns returned {r:?}"), "Ok iff the counts match"); }
                match r {
                    Err(e) => {
                        if e != (error::Error::ColValNumMismatch { col_len: ncols, val_len: k }) { return w(format!("call {i}: error {e:?}"), "ColValNumMismatch with both counts"); }
                        // .. and reports them the way round it names them (`Columns and values ..: <columns> != <values>`; also the panic text of values_panic)
                        let (msg, want) = (e.to_string(), format!("{ncols} != {k}"));
                        if !msg.ends_with(&want) { return w(format!("call {i}: error text {msg:?}"), &format!("the column count, then the value count: `.. {want}`")); }
                        if s != before { return w(format!("call {i}: rejected row changed the statement"), "statement unchanged after an error"); }
                    }
                    Ok(()) => { if k > 0 { rows.push(i + 1); select = None; } }
                }
            }
            Op::SelectFrom(k) | Op::SelectStar(k) => {
                // a select list of k expressions; SelectStar: the first of them is `*` / `u.*` (still ONE expression of the list)
                let mut q = Query::select();
                if let Op::SelectStar(_) = *op { if k > 0 { if k % 2 == 1 { q.column(Asterisk); } else { q.column((Alias::new("u"), Asterisk)); } for c in cols(k - 1) { q.column(c); } } } else { for c in cols(k) { q.column(c); } }
                q.from(Alias::new("u"));
                let r = s.select_from(q).map(|_| ());
                if let Err(e) = &r { if *e != (error::Error::ColValNumMismatch { col_len: ncols, val_len: k }) { return w(format!("call {i}: select_from({k}) with {ncols} columns: error {e:?}"), "ColValNumMismatch with both counts"); } }
                if (k == ncols) != r.is_ok() { return w(format!("call {i}: select_from({k}) with {ncols} columns returned {r:?}"), "Ok iff the counts match"); }
                if r.is_err() && s != before { return w(format!("call {i}: rejected SELECT changed the statement"), "statement unchanged after an error"); }
                if r.is_ok() { select = Some(k); rows.clear(); }
            }
            Op::Default => { s.or_default_values(); }
            Op::ValuesFrom(x, y) => {
                // a ragged iterator: every row must be checked; a row of the wrong length must not be accepted
                let rows_in: Vec<Vec<SimpleExpr>> = vec![row(x, i as i32 + 1), row(y, i as i32 + 1)];
                let mut s2 = s.clone();
                let r = std::panic::catch_unwind(std::panic::AssertUnwindSafe(|| { s2.values_from_panic(rows_in); s2 }));
                match r {
                    Ok(s3) => { if x != ncols || y != ncols { return w(format!("call {i}: values_from_panic accepted rows of {x} and {y} cells for {ncols} columns: {}", s3.to_string(PostgresQueryBuilder)), "a row of the wrong length is rejected"); }
                                s = s3; if x > 0 { rows.push(i + 1); rows.push(i + 1); select = None; } }
                    Err(_) => { if x == ncols && y == ncols { return w(format!("call {i}: values_from_panic panicked on well-formed rows"), "accepted"); } }
                }
            }
        }
    }
    // rendered form: every VALUES tuple has as many cells as the column list; rows in call order
    let sql = s.to_string(PostgresQueryBuilder);
    if let Some(pos) = sql.find(" VALUES ") {
        let declared = sql[..pos].rfind('(').map(|o| sql[o..pos].matches('"').count() / 2).unwrap_or(0);
        if !sql[pos + 8..].starts_with('(') { return w(format!("{sql}"), "VALUES is followed by at least one row `( .. )` (a statement without rows has no VALUES clause, or the DEFAULT VALUES form)"); }
        let tuples: Vec<&str> = sql[pos + 8..].split("), (").collect();
        let mut firsts = vec![];
        for t in &tuples {
            let t = t.trim_start_matches('(').trim_end_matches(')');
            let cells: Vec<&str> = if t.is_empty() { vec![] } else { t.split(", ").collect() };
            if declared == 0 && !cells.is_empty() && cells.iter().all(|c| *c == "DEFAULT") { continue; } // DEFAULT VALUES path
            if cells.len() != declared { return w(format!("{sql}"), "every VALUES row has as many cells as the column list"); }
            firsts.push(cells.first().and_then(|c| c.parse::<i32>().ok()).unwrap_or(-1) / 10);
            // cells in call order: the j-th cell of a row is the j-th expression given (row(k, base) numbers them base*10 + j)
            let nums: Vec<i32> = cells.iter().filter_map(|c| c.parse::<i32>().ok()).collect();
            if nums.len() == cells.len() && nums.iter().enumerate().any(|(j, v)| *v != nums[0] - nums[0] % 10 + j as i32) { return w(format!("{sql}"), "the cells of every row in call order"); }
        }
        if select.is_none() && firsts.iter().map(|&x| x as usize).collect::<Vec<_>>() != rows { return w(format!("{sql} (rows from calls {firsts:?})"), &format!("rows of calls {rows:?} in call order")); }
    }
    None
}

pub fn search(_obl: &str) -> Vec<Witness> {
    std::panic::set_hook(Box::new(|_| {}));
    let mut ops = vec![Op::Default];
    for k in 0..3 { ops.push(Op::Columns(k)); }
    for k in 0..4 { ops.push(Op::Values(k)); }
    for k in 0..3 { ops.push(Op::SelectFrom(k)); }
    for k in 1..3 { ops.push(Op::SelectStar(k)); }
    for (x, y) in [(1, 1), (2, 2), (2, 1), (2, 3), (1, 2)] { ops.push(Op::ValuesFrom(x, y)); }
    let mut found: Vec<Witness> = vec![];
    let mut per_kind: std::collections::HashMap<String, usize> = Default::default();
    let n = ops.len();
    for len in 1..=(if crate::util::deep() { 5usize } else { 4usize }) {
        let mut idx = vec![0usize; len];
        loop {
            let h: Vec<Op> = idx.iter().map(|&i| ops[i]).collect();
            if let Ok(Some(w)) = std::panic::catch_unwind(|| check(&h)) {
                // at most 6 witnesses per kind of failure (its `expected` text), so that one failing rule cannot hide another
                let c = per_kind.entry(w.expected.clone()).or_insert(0usize);
                if *c < 6 { *c += 1; found.push(w); }
            }
            let mut k = len; let mut done = true;
            while k > 0 { k -= 1; if idx[k] + 1 < n { idx[k] += 1; for j in k + 1..len { idx[j] = 0; } done = false; break; } }
            if done { break; }
        }
        if per_kind.len() >= 2 && len >= 3 { break; }
    }
    found
}
pub fn check_one(label_: &str) -> Option<Witness> {
    let h: Vec<Op> = label_.split(';').filter_map(|t| {
        let k: usize = t.trim_end_matches(')').split('(').nth(1).and_then(|x| x.parse().ok()).unwrap_or(0);
        if t.starts_with("values_from_panic") { let v: Vec<usize> = t.trim_end_matches(')').split('(').nth(1).unwrap_or("").split(',').filter_map(|x| x.parse().ok()).collect(); Some(Op::ValuesFrom(*v.first().unwrap_or(&0), *v.get(1).unwrap_or(&0))) }
        else if t.starts_with("columns") { Some(Op::Columns(k)) } else if t.starts_with("values") { Some(Op::Values(k)) } else if t.starts_with("select_from(*") { Some(Op::SelectStar(t.trim_end_matches(" more)").rsplit(' ').next().and_then(|x| x.parse::<usize>().ok()).unwrap_or(0) + 1)) } else if t.starts_with("select_from") { Some(Op::SelectFrom(k)) } else if t.starts_with("or_default") { Some(Op::Default) } else { None }
    }).collect();
    check(&h)
}
