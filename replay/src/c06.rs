//! C06 witness search: condition trees / call histories on the real builder; the rendered WHERE text is parsed with
//! the standard precedence (NOT > AND > OR) and compared with the Kleene-logic meaning of the calls, over all
//! three-valued assignments of the atoms a, b, c.
use crate::util::Witness;
use sea_query::*;

#[derive(Clone, Copy, PartialEq, Debug)]
enum TV { T, F, U }
fn and3(a: TV, b: TV) -> TV { match (a, b) { (TV::F, _) | (_, TV::F) => TV::F, (TV::T, TV::T) => TV::T, _ => TV::U } }
fn or3(a: TV, b: TV) -> TV { match (a, b) { (TV::T, _) | (_, TV::T) => TV::T, (TV::F, TV::F) => TV::F, _ => TV::U } }
fn not3(a: TV) -> TV { match a { TV::T => TV::F, TV::F => TV::T, TV::U => TV::U } }

#[derive(Clone, Debug)]
enum Tree { Atom(usize), Group { any: bool, neg: bool, kids: Vec<Tree> } }
fn sem(t: &Tree, env: &[TV; 3]) -> TV {
    match t {
        Tree::Atom(i) => env[*i],
        Tree::Group { any, neg, kids } => {
            let mut acc = if *any { TV::F } else { TV::T };
            for k in kids { acc = if *any { or3(acc, sem(k, env)) } else { and3(acc, sem(k, env)) }; }
            if *neg { not3(acc) } else { acc }
        }
    }
}
fn atom(i: usize) -> SimpleExpr { Expr::col(Alias::new(["a", "b", "c"][i])).into() }
// `.not()` may be called before or after the members are added (same group either way): both call orders are explored
static NOT_FIRST: std::sync::atomic::AtomicBool = std::sync::atomic::AtomicBool::new(false);
// .not() is an involution: a group may be flipped any number of times; NOT_EXTRA adds two more flips to every group
static NOT_EXTRA: std::sync::atomic::AtomicBool = std::sync::atomic::AtomicBool::new(false);
fn build(t: &Tree) -> ConditionExpression {
    let not_first = NOT_FIRST.load(std::sync::atomic::Ordering::Relaxed);
    match t {
        Tree::Atom(i) => atom(*i).into(),
        Tree::Group { any, neg, kids } => {
            let mut c = if *any { Cond::any() } else { Cond::all() };
            if *neg && not_first { c = c.not(); }
            for k in kids { c = c.add(build(k)); }
            if *neg && !not_first { c = c.not(); }
            if NOT_EXTRA.load(std::sync::atomic::Ordering::Relaxed) { c = c.not().not(); }
            c.into()
        }
    }
}
fn trees(depth: usize) -> Vec<Tree> {
    let mut v: Vec<Tree> = (0..3).map(Tree::Atom).collect();
    if depth == 0 { return v; }
    let sub = trees(depth - 1);
    let sub_small: Vec<Tree> = sub.iter().take(if depth >= 2 { 9 } else { 3 }).cloned().collect();
    for any in [false, true] { for neg in [false, true] {
        v.push(Tree::Group { any, neg, kids: vec![] });
        for a in &sub_small { v.push(Tree::Group { any, neg, kids: vec![a.clone()] }); }
        for a in &sub_small { for b in sub_small.iter().take(4) { v.push(Tree::Group { any, neg, kids: vec![a.clone(), b.clone()] }); } }
    } }
    v
}

// ---- parser for the rendered predicate: OR < AND < NOT < primary
struct P<'a> { t: Vec<&'a str>, i: usize }
fn lex(s: &str) -> Vec<&str> {
    let mut out = vec![]; let b = s.as_bytes(); let mut i = 0;
    while i < b.len() {
        let c = b[i] as char;
        if c == ' ' { i += 1; } else if c == '(' || c == ')' { out.push(&s[i..i + 1]); i += 1; }
        else if c == '"' { let j = s[i + 1..].find('"').unwrap() + i + 2; out.push(&s[i..j]); i = j; }
        else { let mut j = i; while j < b.len() && !" ()".contains(b[j] as char) { j += 1; } out.push(&s[i..j]); i = j; }
    }
    out
}
impl<'a> P<'a> {
    fn peek(&self) -> Option<&'a str> { self.t.get(self.i).copied() }
    fn or(&mut self, env: &[TV; 3]) -> Option<TV> { let mut v = self.and(env)?; while self.peek() == Some("OR") { self.i += 1; v = or3(v, self.and(env)?); } Some(v) }
    fn and(&mut self, env: &[TV; 3]) -> Option<TV> { let mut v = self.not(env)?; while self.peek() == Some("AND") { self.i += 1; v = and3(v, self.not(env)?); } Some(v) }
    fn not(&mut self, env: &[TV; 3]) -> Option<TV> { if self.peek() == Some("NOT") { self.i += 1; return Some(not3(self.not(env)?)); } self.prim(env) }
    fn prim(&mut self, env: &[TV; 3]) -> Option<TV> {
        let t = self.peek()?; self.i += 1;
        match t { "(" => { let v = self.or(env)?; if self.peek()? != ")" { return None; } self.i += 1; Some(v) }
            "TRUE" => Some(TV::T), "FALSE" => Some(TV::F), "\"a\"" => Some(env[0]), "\"b\"" => Some(env[1]), "\"c\"" => Some(env[2]), _ => None }
    }
}
fn eval_sql(pred: &str, env: &[TV; 3]) -> Option<TV> { let mut p = P { t: lex(pred), i: 0 }; let v = p.or(env)?; if p.i != p.t.len() { return None; } Some(v) }

fn check_history(h: &[Tree], label: &str) -> Option<Witness> {
    // every statement kind whose predicate is built by repeated condition-adding calls: SELECT .. WHERE, .. HAVING, UPDATE, DELETE and the
    // partial-index predicate of CREATE INDEX .. WHERE; (kind, keyword before the predicate, [(backend, sql)])
    let a = |s: &str| Alias::new(s);
    let mut kinds: Vec<(&str, &str, Vec<(&str, String)>)> = vec![];
    {
        let mut q = Query::select();
        q.column(a("x")).from(a("t"));
        for t in h { match build(t) { ConditionExpression::Condition(c) => { q.cond_where(c); } ConditionExpression::SimpleExpr(e) => { q.and_where(e); } } }
        kinds.push(("SELECT", " WHERE ", vec![("sqlite", q.to_string(SqliteQueryBuilder)), ("mysql", q.to_string(MysqlQueryBuilder).replace('`', "\"")), ("postgres", q.to_string(PostgresQueryBuilder))]));
    }
    if h.len() >= 2 {
        let mut q = Query::select();
        q.column(a("x")).from(a("t"));
        for t in h { match build(t) { ConditionExpression::Condition(c) => { q.cond_having(c); } ConditionExpression::SimpleExpr(e) => { q.and_having(e); } } }
        kinds.push(("SELECT HAVING", " HAVING ", vec![("postgres", q.to_string(PostgresQueryBuilder))]));
        let mut q = Query::update();
        q.table(a("t")).value(a("x"), 1);
        for t in h { match build(t) { ConditionExpression::Condition(c) => { q.cond_where(c); } ConditionExpression::SimpleExpr(e) => { q.and_where(e); } } }
        kinds.push(("UPDATE", " WHERE ", vec![("postgres", q.to_string(PostgresQueryBuilder))]));
        let mut q = Query::delete();
        q.from_table(a("t"));
        for t in h { match build(t) { ConditionExpression::Condition(c) => { q.cond_where(c); } ConditionExpression::SimpleExpr(e) => { q.and_where(e); } } }
        kinds.push(("DELETE", " WHERE ", vec![("postgres", q.to_string(PostgresQueryBuilder))]));
        let mut q = Index::create();
        q.name("i").table(a("t")).col(a("x"));
        for t in h { match build(t) { ConditionExpression::Condition(c) => { q.cond_where(c); } ConditionExpression::SimpleExpr(e) => { q.and_where(e); } } }
        kinds.push(("CREATE INDEX", " WHERE ", vec![("postgres", q.to_string(PostgresQueryBuilder)), ("sqlite", q.to_string(SqliteQueryBuilder))]));
    }
    for (kind, kw, sqls) in kinds {
      for (name, sql) in sqls {
        let pred = sql.split(kw).nth(1);
        if h.is_empty() { if pred.is_some() { return Some(Witness { property: "C06", input: label.into(), observed: format!("{name}: {sql}"), expected: "no predicate".into() }); } continue; }
        let all_true = h.iter().all(|t| [TV::T, TV::F, TV::U].iter().all(|x| sem(t, &[*x, *x, *x]) == TV::T) && sem(t, &[TV::F, TV::U, TV::T]) == TV::T);
        let pred = match pred { Some(p) => p, None if all_true && kind != "SELECT" => continue, None => return Some(Witness { property: "C06", input: format!("{kind}: {label}"), observed: format!("{name}: no{kw}in {sql}"), expected: "a predicate".into() }) };
        let vals = [TV::T, TV::F, TV::U];
        for x in vals { for y in vals { for z in vals {
            let env = [x, y, z];
            let want = h.iter().fold(TV::T, |acc, t| and3(acc, sem(t, &env)));
            match eval_sql(pred, &env) {
                Some(got) if got == want => {}
                other => return Some(Witness { property: "C06", input: format!("{kind}: {label}"), observed: format!("{name}:{kw}{pred} evaluates to {other:?} under a,b,c = {env:?}"), expected: format!("{want:?}") }),
            }
        } } }
      }
    }
    None
}

/// the other positions that hold a condition: HAVING, UPDATE / DELETE .. WHERE, JOIN .. ON, CASE WHEN (one tree each)
fn check_positions(t: &Tree, label: &str) -> Option<Witness> {
    let cond = |t: &Tree| -> Condition { match build(t) { ConditionExpression::Condition(c) => c, ConditionExpression::SimpleExpr(e) => Cond::all().add(e) } };
    let a = |s: &str| Alias::new(s);
    let mut cases: Vec<(&str, String, &str, &str)> = vec![];   // (position, sql, text before the predicate, text after it)
    cases.push(("HAVING", Query::select().column(a("x")).from(a("t")).cond_having(cond(t)).to_string(PostgresQueryBuilder), " HAVING ", ""));
    cases.push(("UPDATE WHERE", Query::update().table(a("t")).value(a("x"), 1).cond_where(cond(t)).to_string(PostgresQueryBuilder), " WHERE ", ""));
    // UPDATE with extra tables: Postgres keeps WHERE after FROM; MySQL has no UPDATE .. FROM - the condition must still be rendered, ONCE
    // (in JOIN .. ON or in WHERE), whatever the number of extra tables
    cases.push(("UPDATE FROM WHERE", Query::update().table(a("t")).value(a("x"), 1).from(a("u")).from(a("v")).cond_where(cond(t)).to_string(PostgresQueryBuilder), " WHERE ", ""));
    for n in 1..=2usize {
        let mut u = Query::update(); u.table(a("t")).value(a("x"), 1).cond_where(cond(t));
        for f in ["u", "v"].iter().take(n) { u.from(a(f)); }
        let sql = u.to_string(MysqlQueryBuilder).replace('`', "\"");
        let (before, after) = if sql.contains(" ON ") { (" ON ", " SET ") } else { (" WHERE ", "") };
        cases.push((if n == 1 { "UPDATE JOIN (mysql, 1 table)" } else { "UPDATE JOIN (mysql, 2 tables)" }, sql, before, after));
    }
    cases.push(("DELETE WHERE", Query::delete().from_table(a("t")).cond_where(cond(t)).to_string(PostgresQueryBuilder), " WHERE ", ""));
    cases.push(("JOIN ON", Query::select().column(a("x")).from(a("t")).inner_join(a("u"), cond(t)).to_string(PostgresQueryBuilder), " ON ", ""));
    cases.push(("CASE WHEN", Query::select().expr(Expr::case(cond(t), 1).finally(0)).from(a("t")).to_string(PostgresQueryBuilder), "WHEN (", ") THEN "));
    for (pos, sql, before, after) in cases {
        let rest = match sql.split_once(before) { Some((_, r)) => r, None => {
            // an empty `all` group means TRUE: no predicate at all is equivalent for WHERE / HAVING
            let env = [TV::T, TV::T, TV::T];
            if matches!(pos, "HAVING" | "UPDATE WHERE" | "DELETE WHERE" | "UPDATE FROM WHERE" | "UPDATE JOIN (mysql, 1 table)" | "UPDATE JOIN (mysql, 2 tables)") && [TV::T, TV::F, TV::U].iter().all(|x| sem(t, &[*x, *x, *x]) == TV::T) && sem(t, &env) == TV::T { continue; }
            return Some(Witness { property: "C06", input: format!("{pos}: {label}"), observed: format!("no predicate in {sql}"), expected: "a predicate".into() }) } };
        let pred = if after.is_empty() { rest } else { match rest.rsplit_once(after) { Some((p, _)) => p, None => rest } };
        let vals = [TV::T, TV::F, TV::U];
        for x in vals { for y in vals { for z in vals {
            let env = [x, y, z];
            let want = sem(t, &env);
            match eval_sql(pred, &env) {
                Some(got) if got == want => {}
                other => return Some(Witness { property: "C06", input: format!("{pos}: {label}"), observed: format!("{pos} {pred} evaluates to {other:?} under a,b,c = {env:?}   [{sql}]"), expected: format!("{want:?}") }),
            }
        } } }
    }
    None
}

/// depth-3 chains of single-member / negated groups (the shapes the builder rewrites while adding)
fn chains() -> Vec<Tree> {
    let mut v = vec![];
    let leaves = vec![Tree::Atom(0), Tree::Group { any: true, neg: false, kids: vec![Tree::Atom(0), Tree::Atom(1)] }, Tree::Group { any: false, neg: false, kids: vec![] }, Tree::Group { any: true, neg: false, kids: vec![] }];
    for l in &leaves { for a1 in [false, true] { for n1 in [false, true] { for a2 in [false, true] { for n2 in [false, true] { for a3 in [false, true] { for n3 in [false, true] {
        let inner = Tree::Group { any: a1, neg: n1, kids: vec![l.clone()] };
        let mid = Tree::Group { any: a2, neg: n2, kids: vec![inner.clone()] };
        v.push(Tree::Group { any: a3, neg: n3, kids: vec![mid.clone(), Tree::Atom(2)] });
        v.push(Tree::Group { any: a3, neg: n3, kids: vec![mid.clone()] });
        let inner2 = match l { Tree::Group { any, kids, .. } => Tree::Group { any: *any, neg: n1, kids: kids.clone() }, x => x.clone() };
        let mid2 = Tree::Group { any: a2, neg: n2, kids: vec![inner2] };
        v.push(Tree::Group { any: a3, neg: n3, kids: vec![mid2.clone(), Tree::Atom(2)] });
        v.push(mid2);
    } } } } } } }
    v
}

pub fn search(obl: &str) -> Vec<Witness> {
    let mut found = vec![];
    for (nf, extra) in [(false, false), (true, false), (false, true)] {
        NOT_FIRST.store(nf, std::sync::atomic::Ordering::Relaxed);
        NOT_EXTRA.store(extra, std::sync::atomic::Ordering::Relaxed);
        let mut ws = search_mode(obl);
        if nf { for w in ws.iter_mut() { w.input = format!("not-first: {}", w.input); } }
        if extra { for w in ws.iter_mut() { w.input = format!("not-twice-more: {}", w.input); } }
        found.extend(ws);
        if !found.is_empty() { break; }
    }
    NOT_FIRST.store(false, std::sync::atomic::Ordering::Relaxed);
    NOT_EXTRA.store(false, std::sync::atomic::Ordering::Relaxed);
    found
}
fn search_mode(_obl: &str) -> Vec<Witness> {
    std::panic::set_hook(Box::new(|_| {}));
    let mut found = vec![];
    for (i, c) in chains().iter().enumerate() {
        if let Some(w) = check_history(&[c.clone()], &format!("chain#{i} = {c:?}")) { found.push(w); if found.len() >= 3 { break; } }
        if let Some(w) = check_history(&[Tree::Atom(1), c.clone()], &format!("b ; chain#{i} = {c:?}")) { found.push(w); if found.len() >= 3 { break; } }
        if let Some(w) = check_history(&[Tree::Group { any: true, neg: false, kids: vec![] }, c.clone()], &format!("any[] ; chain#{i} = {c:?}")) { found.push(w); if found.len() >= 3 { break; } }
    }
    if !found.is_empty() { return found; }
    let ts = trees(2);
    if let Some(w) = check_history(&[], "[]") { found.push(w); }
    for (i, a) in ts.iter().enumerate() {
        if let Some(w) = check_history(&[a.clone()], &format!("[{i}] = {a:?}")) { found.push(w); if found.len() >= 6 { return found; } }
        if let Ok(Some(w)) = std::panic::catch_unwind(std::panic::AssertUnwindSafe(|| check_positions(a, &format!("[{i}] = {a:?}")))) { found.push(w); if found.len() >= 6 { return found; } }
    }
    let (s1, s2) = if crate::util::deep() { (2, 3) } else { (7, 11) };
    for (i, a) in ts.iter().enumerate().step_by(s1) { for (j, b) in ts.iter().enumerate().step_by(s2) {
        if let Some(w) = check_history(&[a.clone(), b.clone()], &format!("[{i},{j}] = {a:?} ; {b:?}")) { found.push(w); if found.len() >= 6 { return found; } }
    } }
    found
}
pub fn check_one(label: &str) -> Option<Witness> {
    if let Some(rest) = label.strip_prefix("not-twice-more: ") {
        NOT_EXTRA.store(true, std::sync::atomic::Ordering::Relaxed);
        let r = check_one(rest).map(|mut w| { w.input = label.to_string(); w });
        NOT_EXTRA.store(false, std::sync::atomic::Ordering::Relaxed);
        return r;
    }
    if let Some(rest) = label.strip_prefix("not-first: ") {
        NOT_FIRST.store(true, std::sync::atomic::Ordering::Relaxed);
        let r = check_one(rest).map(|mut w| { w.input = label.to_string(); w });
        NOT_FIRST.store(false, std::sync::atomic::Ordering::Relaxed);
        return r;
    }
    if label.contains("chain#") { return search_mode("").into_iter().find(|w| w.input == label); }
    let ts = trees(2);
    if let Some((pos, rest)) = label.split_once(": [") {
        if ["HAVING", "UPDATE WHERE", "DELETE WHERE", "JOIN ON", "CASE WHEN", "UPDATE FROM WHERE", "UPDATE JOIN (mysql, 1 table)", "UPDATE JOIN (mysql, 2 tables)"].contains(&pos) {
            let i: usize = rest.split(']').next()?.parse().ok()?;
            return check_positions(ts.get(i)?, &format!("[{}", rest));
        }
    }
    let idx: Vec<usize> = label.trim_start_matches('[').split(']').next()?.split(',').filter_map(|x| x.trim().parse().ok()).collect();
    let h: Vec<Tree> = idx.iter().filter_map(|&i| ts.get(i).cloned()).collect();
    check_history(&h, label)
}
